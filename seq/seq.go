// Package seq is the framework for the sequential checks: exhaustive enumeration
// of inputs / operation sequences / generated programs against independent
// reference models, on the un-instrumented build of the working tree.
package seq

import (
	"crypto/sha1"
	"encoding/json"
	"fmt"
	"os"
	"os/exec"
	"sort"
	"strconv"
	"strings"
	"sync"
	"time"

	"verif/mc"
)

// Family is one enumeration family of a check.
type Family struct {
	Name string
	// Run enumerates its space and reports through ctx; it must stop when ctx.Expired().
	Run func(ctx *Ctx)
	// Replay re-evaluates one recorded input; "" = property holds on it.
	Replay func(input json.RawMessage) string
}

// Check is a sequential check.
type Check struct {
	ID       string
	Families func(tier string) []Family
	Budget   map[string]int
	Notes    string
}

var registry = map[string]*Check{}

// Register adds a check.
func Register(c *Check) { registry[c.ID] = c }

// Ctx collects the results of one family run (safe for concurrent use).
type Ctx struct {
	mu       sync.Mutex
	check    string
	family   string
	tier     string
	deadline time.Time
	known    []*mc.KnownFinding

	Cases      int // inputs / sequences enumerated (distinct by construction)
	Calls      int // implementation calls evaluated
	Compared   int // cases compared against the reference model
	Incomplete bool
	samples    []any
	viols      []violation
	knownHits  map[string]int
	distinct   map[string]int // outcome classes
}

type violation struct {
	Family string
	Msg    string
	Input  any
}

// Expired reports whether the wall budget is used up.
func (c *Ctx) Expired() bool {
	if !c.deadline.IsZero() && time.Now().After(c.deadline) {
		c.mu.Lock()
		c.Incomplete = true
		c.mu.Unlock()
		return true
	}
	return false
}

// Tier returns the tier being run.
func (c *Ctx) Tier() string { return c.tier }

// Count adds to the counters.
func (c *Ctx) Count(cases, calls, compared int) {
	c.mu.Lock()
	c.Cases += cases
	c.Calls += calls
	c.Compared += compared
	c.mu.Unlock()
}

// Class records an outcome class (vacuity indicator).
func (c *Ctx) Class(name string) {
	c.mu.Lock()
	c.distinct[name]++
	c.mu.Unlock()
}

// ClassN records n occurrences of an outcome class.
func (c *Ctx) ClassN(name string, n int) {
	c.mu.Lock()
	c.distinct[name] += n
	c.mu.Unlock()
}

// Sample keeps a few inputs for the evidence file.
func (c *Ctx) Sample(s any) {
	c.mu.Lock()
	if len(c.samples) < 3 {
		c.samples = append(c.samples, s)
	}
	c.mu.Unlock()
}

// Fail reports a violating input. It returns true when the caller should stop
// enumerating this family (enough counterexamples).
func (c *Ctx) Fail(msg string, input any) bool {
	c.mu.Lock()
	defer c.mu.Unlock()
	for _, k := range c.known {
		if k.Status == "known" && k.Property == c.check && k.MatchSeq(c.family, msg) {
			c.knownHits[k.ID]++
			return false
		}
	}
	if len(c.viols) < 3 {
		c.viols = append(c.viols, violation{Family: c.family, Msg: msg, Input: input})
	}
	return len(c.viols) >= 3
}

// Failed reports whether an (unlisted) violation was recorded.
func (c *Ctx) Failed() bool {
	c.mu.Lock()
	defer c.mu.Unlock()
	return len(c.viols) > 0
}

func verifDir() string {
	if d := os.Getenv("VERIF_DIR"); d != "" {
		return d
	}
	return "/verif"
}

// RunCheck runs all families of a check and writes (or merges into) the evidence file.
func RunCheck(id, tier string) int {
	t0 := time.Now()
	chk := registry[id]
	if chk == nil {
		fmt.Fprintln(os.Stderr, "unknown sequential check", id)
		return 2
	}
	known, err := mc.LoadKnown(verifDir() + "/known_findings.json")
	if err != nil {
		fmt.Fprintln(os.Stderr, "known findings:", err)
		return 2
	}
	budget := chk.Budget[tier]
	if budget == 0 {
		budget = 120
	}
	if v := os.Getenv("VERIF_BUDGET_S"); v != "" {
		fmt.Sscan(v, &budget)
	}
	deadline := t0.Add(time.Duration(budget) * time.Second)
	fams := chk.Families(tier)
	seed := 0
	if v := os.Getenv("VERIF_SEED"); v != "" {
		fmt.Sscan(v, &seed)
	}
	exit := 0
	var perFam []map[string]any
	var samples []any
	totCases, totCalls, totCompared, nviol, classes := 0, 0, 0, 0, 0
	exhaustive := true
	knownSeen := map[string]int{}
	for i := range fams {
		f := fams[(i+seed)%len(fams)]
		ctx := &Ctx{check: id, family: f.Name, tier: tier, deadline: deadline, known: known, knownHits: map[string]int{}, distinct: map[string]int{}}
		func() {
			defer func() {
				if r := recover(); r != nil {
					ctx.Fail(fmt.Sprintf("panic while enumerating: %v", r), nil)
				}
			}()
			f.Run(ctx)
		}()
		totCases += ctx.Cases
		totCalls += ctx.Calls
		totCompared += ctx.Compared
		classes += len(ctx.distinct)
		if ctx.Incomplete {
			exhaustive = false
		}
		for k, n := range ctx.knownHits {
			knownSeen[k] += n
		}
		row := map[string]any{"family": f.Name, "cases": ctx.Cases, "impl_calls": ctx.Calls, "compared_with_reference": ctx.Compared, "complete": !ctx.Incomplete, "outcome_classes": ctx.distinct}
		perFam = append(perFam, row)
		for _, s := range ctx.samples {
			if len(samples) < 6 {
				samples = append(samples, map[string]any{"family": f.Name, "case": s})
			}
		}
		for _, v := range ctx.viols {
			nviol++
			exhaustive = false
			path := writeReplay(id, tier, v)
			fmt.Printf("VIOLATION property=%s replay=%s\n  family: %s\n  %s\n", id, path, v.Family, v.Msg)
			exit = 1
		}
	}
	var kids []string
	for k := range knownSeen {
		kids = append(kids, k)
	}
	sort.Strings(kids)
	for _, kid := range kids {
		for _, k := range known {
			if k.ID == kid && k.Property == id {
				fmt.Printf("KNOWN-FINDING: property=%s %s: %s (%d cases)\n", id, k.ID, k.Title, knownSeen[kid])
			}
		}
	}
	if len(samples) == 0 {
		samples = append(samples, "no case enumerated")
	}
	part := map[string]any{
		"states":                        max(totCases, 1),
		"transitions":                   max(totCalls, 1),
		"traces_validated_against_impl": totCompared,
		"samples":                       samples,
		"exhaustive":                    exhaustive,
		"outcome_classes":               classes,
		"budget_s":                      budget,
		"per_family":                    perFam,
		"explanation":                   "exhaustive enumeration (no sampling) of the stated input/sequence spaces on the un-instrumented build of the working tree; states = distinct cases enumerated, transitions = implementation calls evaluated, traces_validated_against_impl = cases whose implementation result was compared with the independent reference model. " + chk.Notes,
	}
	ev := &mc.Evidence{PropertyID: id, Tier: tier, Seed: seed, Level: "model_checking", Coverage: part, WallS: time.Since(t0).Seconds(), Violations: nviol,
		Assumptions: []string{"the reference models (refwire, refmeta, refhttp, refstream) are correct renderings of the documented formats", "bounded alphabets/lengths as listed per family"}}
	// hybrid checks: merge into the evidence the engine part has just written
	if b, err := os.ReadFile(mc.EvidenceDir() + "/" + id + ".json"); err == nil {
		var prev mc.Evidence
		if json.Unmarshal(b, &prev) == nil && prev.PropertyID == id && prev.Tier == tier && time.Since(t0) < 6*time.Hour {
			cov := prev.Coverage
			cov["states"] = toInt(cov["states"]) + toInt(part["states"])
			cov["transitions"] = toInt(cov["transitions"]) + toInt(part["transitions"])
			cov["traces_validated_against_impl"] = toInt(cov["traces_validated_against_impl"]) + toInt(part["traces_validated_against_impl"])
			if s, ok := cov["samples"].([]any); ok {
				cov["samples"] = append(s, samples...)
			}
			if ex, _ := cov["exhaustive"].(bool); !ex || !exhaustive {
				cov["exhaustive"] = false
			}
			cov["sequential_part"] = part
			prev.WallS += ev.WallS
			prev.Violations += nviol
			prev.Assumptions = append(prev.Assumptions, ev.Assumptions...)
			ev = &prev
		}
	}
	if err := mc.WriteEvidence(ev); err != nil {
		fmt.Fprintln(os.Stderr, "evidence:", err)
		return 2
	}
	fmt.Printf("%s %s (sequential): families=%d cases=%d impl_calls=%d compared=%d exhaustive=%v wall=%.1fs exit=%d\n", id, tier, len(fams), totCases, totCalls, totCompared, exhaustive, time.Since(t0).Seconds(), exit)
	return exit
}

func toInt(v any) int {
	switch x := v.(type) {
	case int:
		return x
	case float64:
		return int(x)
	case int64:
		return int(x)
	}
	return 0
}

func writeReplay(id, tier string, v violation) string {
	dir := verifDir() + "/replays"
	_ = os.MkdirAll(dir, 0o755)
	in, _ := json.Marshal(v.Input)
	h := sha1.Sum(append([]byte(v.Family), in...))
	path := fmt.Sprintf("%s/%s-%x.json", dir, id, h[:5])
	doc := map[string]any{"property": id, "sequential": true, "tier": tier, "family": v.Family, "message": v.Msg, "input": v.Input}
	b, _ := json.MarshalIndent(doc, "", " ")
	_ = os.WriteFile(path, b, 0o644)
	return path
}

// ReplayFile re-evaluates the input of a sequential replay file.
func ReplayFile(path string) int {
	b, err := os.ReadFile(path)
	if err != nil {
		fmt.Fprintln(os.Stderr, err)
		return 2
	}
	var doc struct {
		Property, Tier, Family, Message string
		Input                           json.RawMessage
	}
	if err := json.Unmarshal(b, &doc); err != nil {
		fmt.Fprintln(os.Stderr, err)
		return 2
	}
	chk := registry[doc.Property]
	if chk == nil {
		fmt.Fprintln(os.Stderr, "unknown check", doc.Property)
		return 2
	}
	for _, tier := range []string{doc.Tier, "thorough", "quick"} {
		for _, f := range chk.Families(tier) {
			if f.Name == doc.Family && f.Replay != nil {
				msg := f.Replay(doc.Input)
				if msg != "" {
					fmt.Printf("VIOLATION property=%s replay=%s\n  %s\n", doc.Property, path, msg)
					return 1
				}
				fmt.Println("input replayed: property holds on it")
				return 0
			}
		}
	}
	fmt.Fprintln(os.Stderr, "family not found or not replayable:", doc.Family)
	return 2
}

// RunIsolated evaluates one input of a family in a child process under an address-space limit,
// for inputs that may take the whole process down (fatal "out of memory" is not recoverable):
// a crash of the child is reported as the violation it is instead of killing the check.
func RunIsolated(checkID, family string, input any) string {
	self, err := os.Executable()
	if err != nil {
		return "HARNESS cannot find own executable: " + err.Error()
	}
	f, err := os.CreateTemp("/var/tmp", "verif-isolated-*.json")
	if err != nil {
		return "HARNESS " + err.Error()
	}
	defer os.Remove(f.Name())
	doc := map[string]any{"property": checkID, "sequential": true, "tier": "quick", "family": family, "input": input}
	b, _ := json.Marshal(doc)
	_, _ = f.Write(b)
	_ = f.Close()
	cmd := exec.Command("sh", "-c", `ulimit -v 6000000; exec "$0" replay "$1"`, self, f.Name())
	cmd.Env = append(os.Environ(), "VERIF_ISOLATED=1")
	out, err := cmd.CombinedOutput()
	if err == nil {
		return ""
	}
	text := string(out)
	if ee, ok := err.(*exec.ExitError); ok && ee.ExitCode() == 1 {
		if i := strings.Index(text, "\n  "); i >= 0 {
			return strings.TrimSpace(text[i:])
		}
		return strings.TrimSpace(text)
	}
	if len(text) > 300 {
		text = text[:300]
	}
	return "the process crashed (not a recoverable panic): " + strings.TrimSpace(text)
}

// Main is the entry point of the seq binary.
func Main() {
	if len(os.Args) < 3 {
		fmt.Fprintln(os.Stderr, "usage: seq check <id> <tier> | replay <file>")
		os.Exit(2)
	}
	switch os.Args[1] {
	case "check":
		os.Exit(RunCheck(os.Args[2], os.Args[3]))
	case "replay":
		os.Exit(ReplayFile(os.Args[2]))
	case "stress": // debug: stress <id> <tier> <family> <case json> <n> <parallel>: replays one case n times
		c := registry[os.Args[2]]
		n, _ := strconv.Atoi(os.Args[6])
		par, _ := strconv.Atoi(os.Args[7])
		for _, f := range c.Families(os.Args[3]) {
			if f.Name != os.Args[4] || f.Replay == nil {
				continue
			}
			var mu sync.Mutex
			bad := map[string]int{}
			var wg sync.WaitGroup
			sem := make(chan struct{}, par)
			for i := 0; i < n; i++ {
				wg.Add(1)
				sem <- struct{}{}
				go func() {
					defer func() { <-sem; wg.Done() }()
					if m := f.Replay(json.RawMessage(os.Args[5])); m != "" {
						mu.Lock()
						bad[m]++
						mu.Unlock()
					}
				}()
			}
			wg.Wait()
			fmt.Println("runs:", n, "failures:", bad)
		}
		os.Exit(0)
	}
	os.Exit(2)
}

// Hex renders bytes for messages and replay inputs.
func Hex(b []byte) string {
	const d = "0123456789abcdef"
	var sb strings.Builder
	for _, c := range b {
		sb.WriteByte(d[c>>4])
		sb.WriteByte(d[c&15])
	}
	return sb.String()
}

// Unhex parses Hex output.
func Unhex(s string) []byte {
	out := make([]byte, 0, len(s)/2)
	v := func(c byte) byte {
		if c >= 'a' {
			return c - 'a' + 10
		}
		return c - '0'
	}
	for i := 0; i+1 < len(s); i += 2 {
		out = append(out, v(s[i])<<4|v(s[i+1]))
	}
	return out
}

// Parallel runs f(i) for i in [0,n) on all cores.
func Parallel(n int, f func(i int)) {
	var wg sync.WaitGroup
	workers := 16
	ch := make(chan int)
	for w := 0; w < workers; w++ {
		wg.Add(1)
		go func() {
			defer wg.Done()
			for i := range ch {
				f(i)
			}
		}()
	}
	for i := 0; i < n; i++ {
		ch <- i
	}
	close(ch)
	wg.Wait()
}
