// Package c17rt is the runtime side of the C17 check: generated packages register
// what the plugin emitted for them (constructors, registrars, descriptions); RunAll
// registers them with the real drpcmux and round-trips every method of every client
// stub over a real drpcconn/drpcserver pair, driving the stubs by reflection.
package c17rt

import (
	"context"
	"encoding/json"
	"fmt"
	"io"
	"net"
	"os"
	"reflect"
	"sort"
	"strings"
	"time"

	"storj.io/drpc"
	"storj.io/drpc/drpcconn"
	"storj.io/drpc/drpcmux"
	"storj.io/drpc/drpcserver"
)

// Package is what one generated package registers.
type Package struct {
	Name         string
	Expected     []string // rpc names computed from the descriptor, independent of the plugin
	Constructors []any    // func(drpc.Conn) <client interface>
	Registrars   []func(drpc.Mux) error
	Descriptions []drpc.Description
}

var pkgs []Package

// Register is called from the init function of every generated package.
func Register(p Package) { pkgs = append(pkgs, p) }

// Result is one line of the driver's output.
type Result struct {
	Pkg     string `json:"pkg"`
	OK      bool   `json:"ok"`
	Msg     string `json:"msg,omitempty"`
	Methods int    `json:"methods"`
}

// RunAll checks every registered package and prints one JSON line per package.
func RunAll() {
	sort.Slice(pkgs, func(i, j int) bool { return pkgs[i].Name < pkgs[j].Name })
	enc := json.NewEncoder(os.Stdout)
	for _, p := range pkgs {
		n, msg := runPackage(p)
		_ = enc.Encode(Result{Pkg: p.Name, OK: msg == "", Msg: msg, Methods: n})
	}
}

func runPackage(p Package) (methods int, msg string) {
	defer func() {
		if r := recover(); r != nil {
			msg = fmt.Sprintf("panic: %v", r)
		}
	}()
	mux := drpcmux.New()
	for _, reg := range p.Registrars {
		if err := reg(mux); err != nil {
			return 0, fmt.Sprintf("registering with the mux failed: %v", err)
		}
	}
	var names []string
	for _, d := range p.Descriptions {
		for i := 0; i < d.NumMethods(); i++ {
			rpc, enc, recv, method, ok := d.Method(i)
			if !ok || enc == nil || recv == nil || method == nil {
				return 0, fmt.Sprintf("description method %d incomplete", i)
			}
			names = append(names, rpc)
		}
		if _, _, _, _, ok := d.Method(d.NumMethods()); ok {
			return 0, "description reports a method beyond NumMethods"
		}
	}
	want := append([]string{}, p.Expected...)
	sort.Strings(want)
	got := append([]string{}, names...)
	sort.Strings(got)
	if strings.Join(want, ",") != strings.Join(got, ",") {
		return 0, fmt.Sprintf("server descriptions use rpc names %v, the service definition implies %v", got, want)
	}

	c, s := net.Pipe()
	ctx, cancel := context.WithCancel(context.Background())
	defer cancel()
	srv := drpcserver.New(mux)
	go func() { _ = srv.ServeOne(ctx, s) }()
	conn := drpcconn.New(c)
	defer conn.Close()

	for _, ctor := range p.Constructors {
		cv := reflect.ValueOf(ctor)
		client := cv.Call([]reflect.Value{reflect.ValueOf(conn).Convert(cv.Type().In(0))})[0]
		it := client.Type() // the client interface
		for i := 0; i < it.NumMethod(); i++ {
			m := it.Method(i)
			if m.Name == "DRPCConn" {
				continue
			}
			methods++
			done := make(chan string, 1)
			go func() {
				defer func() {
					if r := recover(); r != nil {
						done <- fmt.Sprintf("panic in %s: %v", m.Name, r)
					}
				}()
				done <- callMethod(client.Method(i), m)
			}()
			select {
			case e := <-done:
				if e != "" {
					return methods, fmt.Sprintf("method %s: %s", m.Name, e)
				}
			case <-time.After(120 * time.Second): // generous: only a real hang ends here
				return methods, fmt.Sprintf("method %s: round trip did not complete (shape not recognised by the dispatcher?)", m.Name)
			}
		}
	}
	return methods, ""
}

func newMsg(t reflect.Type, val string) reflect.Value {
	v := reflect.New(t.Elem())
	if f := v.Elem().FieldByName("Value"); f.IsValid() && f.Kind() == reflect.String {
		f.SetString(val)
	}
	return v
}

func valueOf(v reflect.Value) string {
	if v.Kind() == reflect.Ptr && !v.IsNil() {
		if f := v.Elem().FieldByName("Value"); f.IsValid() && f.Kind() == reflect.String {
			return f.String()
		}
	}
	return "<no Value field>"
}

func errOf(v reflect.Value) error {
	if v.IsNil() {
		return nil
	}
	return v.Interface().(error)
}

// callMethod drives one client stub method according to its shape.
func callMethod(fn reflect.Value, m reflect.Method) string {
	t := m.Type // func(ctx[, in]) (out, error)
	ctx := reflect.ValueOf(context.Background())
	unaryLike := t.NumIn() == 2
	outT := t.Out(0)
	switch {
	case unaryLike && outT.Kind() == reflect.Ptr: // unary
		res := fn.Call([]reflect.Value{ctx, newMsg(t.In(1), "hello")})
		if err := errOf(res[1]); err != nil {
			return fmt.Sprintf("unary call failed: %v", err)
		}
		if got := valueOf(res[0]); got != "hello" {
			return fmt.Sprintf("unary echo returned %q", got)
		}
	case unaryLike: // server streaming
		res := fn.Call([]reflect.Value{ctx, newMsg(t.In(1), "hello")})
		if err := errOf(res[1]); err != nil {
			return fmt.Sprintf("server-streaming call failed: %v", err)
		}
		st := res[0]
		for k := 0; k < 2; k++ {
			r := st.MethodByName("Recv").Call(nil)
			if err := errOf(r[1]); err != nil {
				return fmt.Sprintf("Recv %d failed: %v", k, err)
			}
			if got := valueOf(r[0]); got != "hello" {
				return fmt.Sprintf("Recv %d returned %q", k, got)
			}
		}
		r := st.MethodByName("Recv").Call(nil)
		if err := errOf(r[1]); err != io.EOF {
			return fmt.Sprintf("end of server stream reported as %v", err)
		}
		st.MethodByName("Close").Call(nil)
	default: // client streaming or bidirectional
		res := fn.Call([]reflect.Value{ctx})
		if err := errOf(res[1]); err != nil {
			return fmt.Sprintf("streaming call failed: %v", err)
		}
		st := res[0]
		send := st.MethodByName("Send")
		if !send.IsValid() {
			return "client stream has no Send method"
		}
		inT := send.Type().In(0)
		if car := st.MethodByName("CloseAndRecv"); car.IsValid() { // client streaming
			for _, v := range []string{"a", "b"} {
				if err := errOf(send.Call([]reflect.Value{newMsg(inT, v)})[0]); err != nil {
					return fmt.Sprintf("Send failed: %v", err)
				}
			}
			r := car.Call(nil)
			if err := errOf(r[1]); err != nil {
				return fmt.Sprintf("CloseAndRecv failed: %v", err)
			}
			if got := valueOf(r[0]); got != "ab" {
				return fmt.Sprintf("client-streaming result %q, want \"ab\"", got)
			}
		} else { // bidirectional
			recv := st.MethodByName("Recv")
			if !recv.IsValid() {
				return "bidirectional stream has no Recv method"
			}
			for _, v := range []string{"x", "y"} {
				if err := errOf(send.Call([]reflect.Value{newMsg(inT, v)})[0]); err != nil {
					return fmt.Sprintf("Send failed: %v", err)
				}
				r := recv.Call(nil)
				if err := errOf(r[1]); err != nil {
					return fmt.Sprintf("Recv failed: %v", err)
				}
				if got := valueOf(r[0]); got != v {
					return fmt.Sprintf("bidirectional echo %q, want %q", got, v)
				}
			}
			// receiving into a message object that is reused: each message replaces what the object held
			conc := st
			if conc.Kind() == reflect.Interface {
				conc = conc.Elem() // RecvMsg is a method of the generated stream type, not of its interface
			}
			if rm := conc.MethodByName("RecvMsg"); rm.IsValid() && rm.Type().NumIn() == 1 {
				reused := reflect.New(rm.Type().In(0).Elem())
				for _, v := range []string{"z", ""} {
					if err := errOf(send.Call([]reflect.Value{newMsg(inT, v)})[0]); err != nil {
						return fmt.Sprintf("Send failed: %v", err)
					}
					if err := errOf(rm.Call([]reflect.Value{reused})[0]); err != nil {
						return fmt.Sprintf("RecvMsg failed: %v", err)
					}
					if got := valueOf(reused); got != v && got != "<no Value field>" {
						return fmt.Sprintf("RecvMsg into a reused message yielded %q, the peer sent %q (fields of the previous message survived)", got, v)
					}
				}
			}
			st.MethodByName("CloseSend").Call(nil)
			r := recv.Call(nil)
			if err := errOf(r[1]); err != io.EOF {
				return fmt.Sprintf("end of bidirectional stream reported as %v", err)
			}
		}
		st.MethodByName("Close").Call(nil)
	}
	return ""
}
