#!/bin/bash
# usage: patch_run.sh <patch-file> <label> [check ids...]  - applies a patch in a scratch worktree and runs the
# quick checks against it; prints one line per check (rc 0 = quiet, 1 = violation reported, 2 = harness/build error).
P=$1; L=$2; shift 2
ids="$@"; [ -z "$ids" ] && ids="C01 C02 C03 C04 C05 C06 C07 C08 C09 C10 C11 C12 C13 C14 C15 C16 C17 C18 C19"
cd /verif || exit 2
w=/tmp/pr_$L
git -C /repo worktree remove --force $w 2>/dev/null
git -C /repo worktree add -q $w HEAD && git -C $w apply $P || { echo "$L: patch does not apply"; exit 2; }
for c in $ids; do
  log=$(VERIF_REPO=$w VERIF_RACE_S=${VERIF_RACE_S:-10} ./run $c quick 2>&1); rc=$?
  first=$(echo "$log" | grep -A2 "^VIOLATION\|BUILD-FAILED\|HARNESS" | head -4 | tr '\n' ' ' | cut -c1-400)
  echo "$L $c rc=$rc $first"
done
git -C /repo worktree remove --force $w
