#!/bin/bash
# usage: confirm_seed.sh <seed-dir> <name>   - confirms a seeded change in a fresh scratch worktree:
#   builds, passes the pinned suite, its demonstration fails with it and passes without it.
S=$1; N=$2; W=/tmp/cs_$N
export GOFLAGS=-mod=mod GOPROXY=off
git -C /repo worktree remove --force $W 2>/dev/null
git -C /repo worktree add -q $W HEAD || exit 2
res="ok"
( cd $W && "$S/demo/run.sh" $W >/tmp/cs_$N.clean.log 2>&1 ); clean=$?
git -C $W apply "$S/patch.diff" || { echo "$N: patch does not apply"; res=bad; }
( cd $W && go build ./... ) || { echo "$N: does not build"; res=bad; }
b1=$(/verif/tools/baseline.sh $W | tail -1)
# one test of the pinned suite (TestCancelRepeatedPooled) is flaky under load: retry once, show what failed
[ "$b1" = "BASELINE OK" ] || { /verif/tools/baseline.sh $W > /tmp/cs_$N.baseline.log 2>&1; b1="$(tail -1 /tmp/cs_$N.baseline.log) (second run; first failed: $(grep -h -- '--- FAIL' /tmp/cs_$N.baseline.log | head -3 | tr '\n' ' '))"; }
( cd $W && "$S/demo/run.sh" $W >/tmp/cs_$N.seeded.log 2>&1 ); seeded=$?
git -C $W checkout -- . ; git -C $W clean -fdq
git -C /repo worktree remove --force $W
echo "$N: demo on clean tree exit=$clean (want 0); baseline with patch: $b1; demo with patch exit=$seeded (want !=0); $res"
