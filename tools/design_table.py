#!/usr/bin/env python3
"""Rewrites the 'measured (quick)' cell of the table in DESIGN.md section 4 from /verif/evidence/*.json."""
import json, re, os
def fmt(n):
    return "-" if n is None else (f"{n/1e6:.1f} M" if n >= 1e6 else (f"{n/1e3:.0f} k" if n >= 1e4 else str(n)))
cells = {}
for i in range(1, 20):
    pid = "C%02d" % i
    p = f"/verif/evidence/{pid}.json"
    if not os.path.exists(p):
        continue
    e = json.load(open(p)); c = e["coverage"]
    parts = []
    if "executions" in c:
        parts.append(f"{c.get('scenarios')} scenarios, {fmt(c['executions'])} executions")
    sp = c.get("sequential_part") or (c if "executions" not in c else None)
    if sp:
        parts.append(f"{fmt(sp.get('states'))} cases")
    parts.append(f"{round(e.get('wall_s') or 0)} s")
    if not c.get("exhaustive"):
        parts.append("NOT exhaustive")
    cells[pid] = ", ".join(parts)
s = open("/verif/DESIGN.md").read()
out = []
for line in s.split("\n"):
    m = re.match(r"^\| (C\d\d) \|", line)
    if m and m.group(1) in cells and line.count("|") >= 6 and "decided by" not in line:
        cols = line.split(" | ")
        if len(cols) >= 5:
            cols[-1] = cells[m.group(1)] + " |"
            line = " | ".join(cols)
    out.append(line)
open("/verif/DESIGN.md", "w").write("\n".join(out))
print("updated", len(cells))
