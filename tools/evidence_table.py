#!/usr/bin/env python3
"""Prints a markdown table of what the evidence files say was covered (usage: evidence_table.py [dir])."""
import json, sys, os
d = sys.argv[1] if len(sys.argv) > 1 else "/verif/evidence"
print("| id | tier | scenarios / families | executions / cases | states | decision points / impl calls | exhaustive | wall |")
print("|---|---|---|---|---|---|---|---|")
for i in range(1, 20):
    pid = "C%02d" % i
    p = os.path.join(d, pid + ".json")
    if not os.path.exists(p):
        print(f"| {pid} | - | missing | | | | | |"); continue
    e = json.load(open(p)); c = e["coverage"]
    def fmt(n):
        return "-" if n is None else (f"{n/1e6:.2f} M" if n >= 1e6 else (f"{n/1e3:.1f} k" if n >= 1e4 else str(n)))
    scen = c.get("scenarios", c.get("families"))
    if isinstance(scen, list): scen = len(scen)
    if scen is None and isinstance(c.get("per_family"), list): scen = str(len(c["per_family"])) + " families"
    ex = c.get("executions", c.get("cases"))
    st = c.get("states"); tr = c.get("transitions", c.get("impl_calls"))
    extra = ""
    sp = c.get("sequential_part")
    if sp:
        extra = f" + seq {fmt(sp.get('states'))} cases"
    print(f"| {pid} | {e.get('tier')} | {scen} | {fmt(ex)}{extra} | {fmt(st)} | {fmt(tr)} | {c.get('exhaustive')} | {round(e.get('wall_s') or 0)} s |")
