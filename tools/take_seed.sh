#!/bin/bash
# usage: take_seed.sh <deliverable-dir> <seed-name> <worktree-to-remove> "<origin note>"
#   confirms a sub-agent's seeded change, stores it under seeded/<seed-name>, removes the agent's
#   worktree and runs the owning quick check against it (result appended to /var/tmp/sm_take.md).
S=$1; N=$2; W=$3; NOTE=$4
cd /verif || exit 2
line=$(env -u GOTOOLCHAIN -u GOSUMDB tools/confirm_seed.sh $S $N 2>&1 | tail -1)
echo "$line"
case "$line" in *"BASELINE OK"*"want !=0); ok") ;; *) echo "NOT CONFIRMED"; exit 1;; esac
case "$line" in *"exit=0 (want 0)"*) ;; *) echo "NOT CONFIRMED (demo fails on the clean tree)"; exit 1;; esac
case "$line" in *"with patch exit=0"*) echo "NOT CONFIRMED (demo passes with the patch)"; exit 1;; esac
mkdir -p seeded/$N; cp -r $S/patch.diff $S/demo seeded/$N/
python3 - "$S/meta.json" "seeded/$N/meta.json" "$NOTE" <<'PY'
import json,sys
m=json.load(open(sys.argv[1]))
m["origin"]="independent sub-agent (%s), given only the property text and a scratch worktree" % sys.argv[3]
m["confirmed"]="tools/confirm_seed.sh (fresh worktree; demo passes clean, patch applies, builds, pinned suite BASELINE OK, demo fails with the patch)"
json.dump(m,open(sys.argv[2],"w"),indent=1)
PY
[ -n "$W" ] && git -C /repo worktree remove --force $W
SEED_OUT=/var/tmp/sm_take_$N.md tools/seed_matrix.sh $N | tail -1
grep "^| C" /var/tmp/sm_take_$N.md >> /var/tmp/sm_take.md
