#!/bin/bash
# usage: runall.sh <quick|thorough> [ids...]  - runs the registered checks one after the other on /repo
tier=${1:-quick}; shift
ids="$@"; [ -z "$ids" ] && ids="C01 C02 C03 C04 C05 C06 C07 C08 C09 C10 C11 C12 C13 C14 C15 C16 C17 C18 C19"
cd /verif
for c in $ids; do
  s=$(date +%s); out=$(./run $c $tier 2>&1); rc=$?; e=$(( $(date +%s) - s ))
  echo "$c $tier rc=$rc ${e}s :: $(echo "$out" | grep -c '^VIOLATION') violations, $(echo "$out" | grep -c '^KNOWN-FINDING') known; $(echo "$out" | grep "exhaustive=" | sed 's/.*exhaustive=\([a-z]*\).*/\1/' | tr '\n' ' ')"
  [ $rc -ne 0 ] && echo "$out" | grep -A3 "^VIOLATION\|HARNESS\|BUILD" | head -20
done
