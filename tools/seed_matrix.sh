#!/bin/bash
# usage: seed_matrix.sh [seed-name ...]   - runs the owning check (and optional extra checks listed in
# seeded/<name>/checks.txt) against every seeded change, in scratch worktrees; writes seeded/RESULTS.md.
cd /verif || exit 2
names="$@"; [ -z "$names" ] && names=$(ls seeded | grep -v RESULTS)
out=${SEED_OUT:-seeded/RESULTS.md}
echo "| seeded change | check | tier | result | first report |" > $out.tmp
echo "|---|---|---|---|---|" >> $out.tmp
for n in $names; do
  d=seeded/$n; [ -f $d/patch.diff ] || continue
  prop=${n%%-*}
  checks=$prop; [ -f $d/checks.txt ] && checks=$(cat $d/checks.txt)
  w=/tmp/sm_$n
  git -C /repo worktree remove --force $w 2>/dev/null
  git -C /repo worktree add -q $w HEAD && git -C $w apply /verif/$d/patch.diff || { echo "| $n | - | - | patch does not apply | |" >> $out.tmp; continue; }
  for c in $checks; do
    log=$(VERIF_REPO=$w VERIF_RACE_S=${VERIF_RACE_S:-10} ./run $c quick 2>&1); rc=$?
    first=$(echo "$log" | grep -A2 "^VIOLATION" | sed -n 2,3p | tr '\n' ' ' | cut -c1-220 | sed 's/|/\\|/g')
    case $rc in 1) res="DETECTED";; 0) res="missed";; *) res="harness error ($rc)";; esac
    echo "| $n | $c | quick | $res | $first |" >> $out.tmp
    echo "$n $c rc=$rc"
  done
  git -C /repo worktree remove --force $w
done
mv $out.tmp $out
