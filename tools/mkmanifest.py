#!/usr/bin/env python3
"""Regenerates /verif/MANIFEST.json from the table below (single source of truth)."""
import json, sys

ENGINE = "engine: controlled scheduler over the overlay-instrumented implementation (stateless DFS, deviation/preemption bounded, HB-state cache)"
SEQ = "seq: exhaustive enumeration of inputs / operation sequences against an independent reference model"

# id -> (built?, level category, technique, text, note, design_ref)
CHECKS = {
 "C19": (True, "model_checking", "stateless model checking of the real code: all interleavings (<=3-4 threads) / preemption bound 2-3 (4-5 threads), points before+after every atomic",
         "Every interleaving of up to 3 (quick) / 4 (thorough) concurrent Set/Get/Err/IsSet/Signal/Wait threads on drpcsignal.Signal and Close/Get/Make/Send/Recv/Full on drpcsignal.Chan is executed on the real code under a scheduler that owns every atomic, mutex and channel operation, with a scheduling point before and after each atomic; 4 (5) threads at preemption bound 2 (3). Oracle: exactly one winner, every observer sees the winner's error, channel closed only after value visible, one channel identity, no panic, no blocked waiter after a Set/Close.",
         "Go atomics are sequentially consistent; data-race freedom between points is validated by a separate free-running -race pass; bounds: <=5 threads, 1-3 operations each.", "4/C19"),
 "C06": (True, "model_checking", "stateless model checking of the real code: client conn + ServeOne over a model pipe, deviation-bounded (0,1; 2 on the small grid in thorough) schedule enumeration per (client program, handler program, config) followed by a probe RPC",
         "For every (client program, handler program) pair up to 1 (quick) / 2 (thorough) send/recv/half-close steps per side, ending by Close, context cancel (a canceller thread placed at every point by the deviation bound) or half-close+drain, handlers returning nil or an error possibly without draining, soft and hard cancel, unbounded and rendezvous pipe, the real drpcconn/drpcserver pair is run under every schedule with at most 1 (2) deviations from the default schedule, then a probe RPC is issued (after quiescence with the premise checked, or immediately). Oracle: the probe returns its own echo unless the connection reports closed; a probe parked at final quiescence is reported with the wait-for set.",
         "Deviation bound 1-2 (not all interleavings); programs up to 2 steps per side; transport is the in-memory model; handlers end when their stream ends.", "4/C06"),
 "C01": (True, "model_checking", "stateless model checking of the real code: conn + ServeOne over a model pipe, deviation-bounded schedule enumeration (bound 1 on the size/config grid, 2 on concurrent senders/receivers/closers) with a FIFO/exactly-once/flush-at-return/completeness oracle",
         "Messages of boundary sizes (0,1,split-1,split,split+1,2*split+1, 70 KiB) are sent in both directions by 1-2 sender goroutines to 1-2 receivers under split-size/writer-buffer/manual-flush/soft-cancel/pipe-capacity/1-byte-read configurations; every schedule within the deviation bound is executed on the real drpcconn/drpcserver pair. Oracle: each receiver's list is, per sender, an in-order duplicate-free subsequence of the submitted byte strings with no gap over a successful send; when MsgSend returns nil under automatic flushing the complete message is already in the transport write log (parsed by the independent reference decoder); at quiescence all successful sends were received; after a graceful half-close the receiver gets io.EOF; with a concurrent closer/canceller safety still holds and nobody stays blocked.",
         "Deviation bound 1-2; <=3 messages per sender, boundary size alphabet; model transport; a scheduling point inside the harness Unmarshal models a slow consumer of the lent buffer.", "4/C01"),
 "C02": (True, "model_checking", "stateless model checking of the real code: histories of 2-3 tagged RPCs (and 2-3 concurrent callers) on one connection, deviation bound 1 (2 for soft-cancel histories), tag/echo/error-identity oracle",
         "Every history of 2 (thorough: 3) RPCs where the earlier ones end by normal completion, client Close, context cancel at every point (hard and soft), handler error or early handler return, followed by a victim RPC, plus 2-3 goroutines calling Invoke concurrently, is executed under every schedule within the deviation bound. Oracle: every payload received by RPC r on either side carries r's tag and verifies its checksum; handler errors seen by r are r's; a nil unary result is the echo of its own request; an RPC not ended by its caller whose handler is well-behaved succeeds unless the connection reports closed by final quiescence.",
         "Deviation bound 1-2; <=3 RPCs; model transport.", "4/C02"),
 "C04": (True, "model_checking", "stateless model checking of the real code: ordered subsets (<=2 quick, <=3 thorough) of in-flight operations on one RPC over a stalled or flowing model transport, cancel after quiescence or by a racing canceller thread, deviation bound 1 (2), both cancel modes; five-clause oracle",
         "For every ordered subset of {send, second send, recv, close, half-close, unary invoke, next NewStream} started on separate goroutines on one RPC, over a stalled client transport or a flowing one with a silent/receiving/flooding/echoing handler, the context is cancelled either after quiescence (so 'in flight when the cancel happens' is a happens-before fact) or by a canceller thread placed at every point by the deviation bound. Oracle: (1) no call stays blocked; (2) calls parked at the cancel with a silent peer fail, receives with exactly ctx.Err() and, in the default mode, sends too (relaxed to 'fails' when a local Close/half-close races for being the termination cause); (3) later send/receive fail; (4) the connection reports closed or serves a probe; (5) the peer handler's context ends once the cancellation has been read. Four genuine deviations of the pinned tree are listed as known findings (F1, F2, F11, F12).",
         "Deviation bound 1-2; model transport; clauses (4),(5) presuppose that the peer's reader is not parked on a message the handler never receives (single-slot lending by design).", "4/C04"),
 "C05": (True, "model_checking", "fault enumeration x schedule enumeration on the real code: every transport call index of a fault-free run (+1), endpoint, read/write, fault kind (error, error after j bytes, peer close, local close), deviation bound 0-1 (2 on unary in thorough), 1-byte and whole-buffer read chunking",
         "The workloads unary / client-stream(2) / server-stream(2) / bidi(2) (thorough: + two unary in a row, rendezvous pipe, soft cancel with tiny split/writer buffer) are re-run on the real conn/server pair once per armed fault and per schedule within the bound. Oracle: no panic; at quiescence every pending call and handler has returned; Invoke, NewStream, MsgSend and MsgRecv issued afterwards fail; the connection reports closed; per RPC and direction the received byte strings are an exact prefix of the submitted ones (nothing corrupted, duplicated, reordered or cross-delivered).",
         "After a fault the model transport is dead in both directions (reset-connection semantics); fault positions are taken from the default schedule's call count.", "4/C05"),
 "C12": (True, "model_checking", "stateless model checking of the real code: a closer thread (Conn.Close / cancel of ServeOne's context / cancel of Serve's context / listener close) placed at every point of each workload by deviation bounding (bound 2 on idle/unary/running/parked), leak census at quiescence",
         "Workloads idle, unary, server-stream, bidi, handler-running, operation-parked-in-a-stalled-transport (thorough: + client-stream, two unary, rendezvous pipe) are closed at every schedule point from the client (Conn.Close) or the server (ServeOne context); Server.Serve over a model listener with 1-2 connections is stopped by its context or by closing the listener. Oracle: Close returns; each transport is closed exactly once even after a second Close; pending and later calls fail; the active stream's context is done; no goroutine spawned by the library remains; ServeOne returned; Serve returns only after all its handlers returned; delivered data is a correct prefix.",
         "Deviation bound 1-2; model transport whose Close unblocks its pending I/O (as net.Conn does); handlers end when their stream context ends.", "4/C12"),
 "C08": (True, "model_checking", "exhaustive enumeration against an independent reference decoder: all frames over boundary classes, ALL byte strings up to the stated lengths/alphabets, all varints below 2^20 (2^26) plus structure classes",
         "ParseFrame/AppendFrame/ReadVarint/AppendVarint/SplitN of the working tree are compared with harness/refwire (written from the wire description, no drpc import) on: 64 kinds x 4 flag combinations x 81 boundary id pairs x 6 payload lengths (round trip, byte equality with the reference encoder, every proper prefix = need-more with the input intact, trailing bytes = exact remainder); every byte string of length <=3 over all 256 values, <=6 (7) over 8 symbols, <=10 (12) over 4 symbols; every varint value below 2^20 (2^26) and boundary values; every string <=9 (11) over {00,01,7f,80,ff} for ReadVarint; all (length<=40, n) SplitN pairs. The reference's own need-more answers are validated by constructing a completing extension.",
         "The reference decoder is the specification; 'every 64-bit value / all byte strings' are covered by exhaustive short strings and structure classes, not 2^64 values.", "4/C08"),
 "C10": (True, "model_checking", "enumeration of error text x code x wrapping x RPC shape x messages-before-failing on the real conn/server pair (default schedule for the whole grid, deviation bound 1 for the core grid), dispatcher failures through the real drpcmux, probe afterwards",
         "Handler errors built from 4 texts (empty, short, binary with NUL/0xff/CR/LF, 70 KiB) x 6 codes (0,1,2,12,2^32,2^64-1) x 5 wrappings (none, Unwrap x1/x3, Cause, errs class) x 4 RPC shapes x 0-2 messages sent before failing are returned by a real handler; unknown RPC and undecodable request go through the real drpcmux. Oracle: the client error's text equals the handler error's text, drpcerr.Code equals the attached code, the k messages arrive first, a nil handler result never yields a client error, and a probe RPC succeeds afterwards.",
         "Bound 0 for the full grid, deviation bound 1 for the core grid (thorough: all short texts).", "4/C10"),
 "C11": (True, "model_checking", "hybrid: (engine) stateless model checking of 3-call sequences with/without metadata incl. a call abandoned at every point, deviation bound 1 (2); (seq) exhaustive enumeration of maps and of all short byte strings against a reference protobuf decoder and the real protobuf library",
         "Engine part: every sequence of three unary calls with metadata in {none, 1 entry, 2 entries} and sequences whose first call is abandoned by a canceller thread at every scheduling point (soft and hard cancel; between its metadata packet and its invoke among them) run on the real conn/server pair; handler r must see exactly the map attached to call r. Sequential part: all maps with <=2 (3) entries over 8 strings (empty, 127/128/16384 bytes, binary) round-trip, are read back identically by the independent protobuf decoder and by google.golang.org/protobuf through a dynamic map<string,string> field-1 message and vice versa; Decode on all byte strings <=3 (full alphabet) and <=7 (9) over 9 symbols never panics and never returns a map a protobuf decoder would not.",
         "Deviation bound 1-2; string alphabet and lengths as listed.", "4/C11"),
 "C09": (True, "model_checking", "exhaustive enumeration: frame sequences x ALL partitions of the byte stream into reads (all compositions for short streams, all single/double cuts + uniform chunks otherwise) x error-delivery variants, against the reference reassembly; buffer capacity read by reflection",
         "Every sequence of <=3 (thorough: 4) frames over a 16-frame alphabet (ids below/at/above the watermark, kind change, control bits, oversized, padded integers, malformed, truncated) and every run of 6 (5-8) small frames over a 4-frame alphabet, with MaximumBufferSize 4 (1,4,8), is fed to the real drpcwire.Reader under every composition of the byte stream into non-empty reads (streams <=14/16 bytes) or all single (double) cuts and uniform chunk sizes, with the final error delivered after or together with the last data and with zero-length reads interleaved (99 tolerated, 100 = ErrNoProgress); long single/multi-frame packets around 4096-31, 4096, 70000 (4 MiB). Oracle: (packets, first error class) identical for all splits and equal to refwire's reassembly; sum of capacities of the reader's byte slices <= 4*max+32KiB.",
         "Reference reassembly treats ids as naturals (message id 2^64-1 wrap not generated); an incomplete frame longer than max at end of stream may be reported as oversized or as end of stream.", "4/C09"),
 "C03": (True, "model_checking", "explicit enumeration of all operation/packet sequences (data choices of the explorer) on a real Stream under the controlled scheduler, compared step by step with an independent reference state machine; breadth-first search over reference-model states for longer chains with shortest-path replay on fresh objects",
         "All sequences of length <=5 (thorough: 6) over the 17-symbol alphabet (MsgSend, MsgRecv, CloseSend, Close, SendError, Cancel, SendCancel, RawFlush; packets Message, CloseSend, Close, Error, Cancel, Invoke, unknown with/without control bit, foreign stream id), with automatic and manual flushing, each symbol run in its own scheduled goroutine until it returns or blocks (blocked receives and an undelivered message are the in-flight operations); then from every state of the reference model (found by BFS to depth 8/10, re-reached by its shortest path on a fresh stream) all sequences of 2 (3) further symbols; thorough adds one scheduling deviation inside every length-3 sequence. After every step: result class of every call that returned (nil / io.EOF / exact cancel error / remote text+code / ClosedError / ProtocolError / InternalError / some error), frames emitted (kind, control, done, strictly increasing ids), Terminated, Finished, Context().Done(), Context().Err().",
         "Sequences with a write parked inside the transport are covered by C04/C07/C12 harnesses, not by this reference model; one packet handler at a time (calling contract).", "4/C03 + Appendix A"),
 "C07": (True, "model_checking", "stateless model checking of the real code: 2-3 (4) concurrent API actors on one stream / handler senders racing SendError, deviation bound 1-2, every Transport.Write with a begin and an end scheduling point; reference frame parser + real reader on the write log",
         "Subsets of {two multi-frame senders, half-close, close, context cancel, next RPC} run concurrently on a client stream (split size 2 / writer buffer 1 so that every frame is its own write, and defaults), and handler goroutines send while the handler returns an error; both cancel modes; thorough adds 4 actors and writes parked at the j-th call. Oracle on the bytes passed to Transport.Write: whole well-formed frames, non-decreasing (stream, message) ids, one kind per id, nothing after the final frame of an id, accepted by the real drpcwire.Reader; never two Writes nor two Reads in flight; Close at most once.",
         "Deviation bound 1-2; model transport.", "4/C07"),
}
ALL = ["C%02d" % i for i in range(1, 20)]
NOT_BUILT_REASON = "check not built yet in this round (planned: see DESIGN.md section 4); not claimed until it exists"

def main():
    checks, na = [], []
    for pid in ALL:
        c = CHECKS.get(pid)
        if not c or not c[0]:
            na.append({"property_id": pid, "reason": NOT_BUILT_REASON if not c else c[3]})
            continue
        _, cat, tech, text, note, ref = c
        checks.append({
            "property_id": pid,
            "quick_cmd": f"./run {pid} quick",
            "thorough_cmd": f"./run {pid} thorough",
            "evidence_file": f"/verif/evidence/{pid}.json",
            "replay_cmd_template": "./run replay {path}",
            "engine": "seq" if pid in ("C08","C09","C14","C17","C18") else "mc",
            "level_claimed": {"category": cat, "text": text, "design_ref": "DESIGN.md section " + ref},
            "level_note": note,
            "technique": tech,
        })
    m = {
        "version": 1,
        "setup_cmd": "./setup.sh",
        "hooks": {
            "guard": "none (instrumentation is a generated `go build -overlay`; /repo is never edited for hooks)",
            "enable": "./run <id> <tier> regenerates the overlay from /repo's working tree (cmd/vtool instrument) and builds cmd/mc with -overlay",
            "baseline_off_cmd": "cd /repo && go test -vet=off -count=1 ./...",
            "source_commits": [],
            "add_only": True,
        },
        "engines": [
            {"name": "mc", "path": "/verif/engine", "serves_properties": [p for p in ALL if p in CHECKS and CHECKS[p][0] and p not in ("C08","C09","C14","C17","C18")], "kind_free_text": ENGINE},
            {"name": "seq", "path": "/verif/cmd/seq", "serves_properties": [p for p in ALL if p in CHECKS and CHECKS[p][0] and p in ("C08","C09","C11","C13","C14","C17","C18")], "kind_free_text": SEQ},
        ],
        "checks": checks,
        "not_applicable": na,
        "notes": "All checks are bounded exhaustive enumerations (model checking family); see DESIGN.md. Exit codes: 0 held, 1 violation (VIOLATION line), 2 harness/build failure.",
    }
    json.dump(m, open("/verif/MANIFEST.json", "w"), indent=1)
    print("checks:", len(checks), "not_applicable:", len(na))

main()
