#!/bin/bash
# Runs the pinned test suite of storj/drpc (all modules) on a tree; prints failing tests.
# usage: baseline.sh [repo-dir]
R=${1:-/repo}
export GOPROXY=off GOFLAGS=-mod=mod
fail=0
for m in . ./internal/backcompat ./internal/backcompat/newservice ./internal/backcompat/newservicedefs ./internal/backcompat/oldservice ./internal/backcompat/oldservicedefs ./internal/backcompat/servicedefs ./internal/grpccompat ./internal/integration ./internal/twirpcompat; do
  [ -d "$R/$m" ] || continue
  out=$(cd "$R/$m" && go test -mod=mod -vet=off -count=1 -timeout 25m ./... 2>&1)
  rc=$?
  if [ $rc -ne 0 ]; then fail=1; echo "== FAIL in $m"; echo "$out" | grep -v "^ok\|no test files" | head -60; fi
done
[ $fail -eq 0 ] && echo "BASELINE OK"
exit $fail
