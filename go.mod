module verif

go 1.22.0

toolchain go1.23.5

require (
	github.com/gogo/protobuf v1.3.2
	github.com/zeebo/errs v1.2.2
	golang.org/x/tools v0.29.0
	google.golang.org/protobuf v1.27.1
	storj.io/drpc v0.0.0
)

replace storj.io/drpc => /repo
