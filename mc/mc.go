//go:build !vsreal

// Package mc is the check framework on top of the scheduler: scenario registry,
// sharded exploration over worker processes, known-finding matching, evidence.
package mc

import (
	"bufio"
	"crypto/sha1"
	"encoding/json"
	"fmt"
	"os"
	"os/exec"
	"runtime"
	"sort"
	"strconv"
	"strings"
	"sync"
	"time"

	"verif/engine/sched"
)

type workItem struct {
	Plan     int      `json:"plan"`
	Bound    int      `json:"bound"`
	Root     []int    `json:"root,omitempty"`
	RootSigs []uint32 `json:"sigs,omitempty"`
	OnlyRoot bool     `json:"only_root,omitempty"`
	Replay   []int    `json:"replay,omitempty"`
	IsReplay bool     `json:"is_replay,omitempty"`
	Deadline int64    `json:"deadline,omitempty"`
	NoCache  bool     `json:"nocache,omitempty"`
}

type workResult struct {
	Item      workItem         `json:"item"`
	Stats     sched.Stats      `json:"stats"`
	Viol      *sched.Violation `json:"viol,omitempty"`
	Known     map[string]int   `json:"known,omitempty"`
	ReplayObs []string         `json:"replay_obs,omitempty"`
	ReplayMsg string           `json:"replay_msg,omitempty"`
	Trace     []string         `json:"trace,omitempty"`
	Nondet    string           `json:"nondet,omitempty"`
	Err       string           `json:"err,omitempty"`
}

func opts(s *Scenario) sched.Opts {
	return sched.Opts{Fine: s.Fine, AfterRelease: s.AfterRelease, StepCap: s.StepCap, Reverse: s.Reverse}
}

// worker serves work items from stdin.
func worker(checkID, tier string) int {
	c := registry[checkID]
	if c == nil {
		fmt.Fprintln(os.Stderr, "unknown check", checkID)
		return 2
	}
	plans := c.Plans(tier)
	known, err := LoadKnown(verifDir() + "/known_findings.json")
	if err != nil {
		fmt.Fprintln(os.Stderr, "known findings:", err)
		return 2
	}
	in := bufio.NewReaderSize(os.Stdin, 1<<20)
	out := json.NewEncoder(os.Stdout)
	for {
		line, err := in.ReadBytes('\n')
		if len(line) == 0 && err != nil {
			return 0
		}
		var it workItem
		if err := json.Unmarshal(line, &it); err != nil {
			fmt.Fprintln(os.Stderr, "bad item:", err)
			return 2
		}
		res := runItem(c, plans, known, it)
		if err := out.Encode(res); err != nil {
			return 2
		}
	}
}

func runItem(c *Check, plans []Plan, known []*KnownFinding, it workItem) (res workResult) {
	res.Item = it
	defer func() {
		if r := recover(); r != nil {
			buf := make([]byte, 8192)
			res.Err = fmt.Sprintf("harness panic: %v\n%s", r, buf[:runtime.Stack(buf, false)])
		}
	}()
	p := plans[it.Plan]
	s := p.Scen
	if it.IsReplay {
		e := sched.Replay(opts(s), it.Replay, s.Body)
		res.ReplayObs = e.Obs
		res.Trace = e.Trace
		switch {
		case e.Diverged != "":
			res.ReplayMsg = "HARNESS " + e.Diverged
		case e.CapHit:
			res.ReplayMsg = "step cap hit (livelock?)"
		default:
			res.ReplayMsg = s.Check(e)
		}
		res.Viol = &sched.Violation{Msg: res.ReplayMsg, Choices: e.Choices, Obs: e.Obs, Blocked: e.Blocked, Panics: e.Panics, Trace: e.Trace}
		return res
	}
	res.Known = map[string]int{}
	check := func(e *sched.Exec) string {
		msg := s.Check(e)
		if msg == "" {
			return ""
		}
		if k := matchKnown(known, c.ID, s.Name, msg); k != nil {
			res.Known[k.ID]++
			e.Obs = append(e.Obs, "KNOWN:"+k.ID)
			return ""
		}
		return msg
	}
	cfg := sched.Config{Model: s.Model, Bound: it.Bound, NoCache: s.NoCache || it.NoCache, Opts: opts(s), Root: it.Root, RootSigs: it.RootSigs, OnlyRoot: it.OnlyRoot}
	if it.Deadline > 0 {
		cfg.Deadline = time.Unix(it.Deadline, 0)
	}
	st, v := sched.Explore(cfg, s.Body, check)
	res.Stats, res.Viol = st, v
	// determinism: the first and last schedules of this item must replay identically
	if v == nil && !it.OnlyRoot {
		for _, ch := range [][]int{st.FirstChoices, st.LastChoices} {
			if ch == nil {
				continue
			}
			a := sched.Run(opts(s), ch, nil, s.Body)
			b := sched.Run(opts(s), ch, nil, s.Body)
			if sched.Outcome(a) != sched.Outcome(b) || fmt.Sprint(a.Choices) != fmt.Sprint(b.Choices) || fmt.Sprint(a.Blocked) != fmt.Sprint(b.Blocked) {
				res.Nondet = fmt.Sprintf("schedule %v replays differently:\n A=%s %v\n B=%s %v", ch, sched.Outcome(a), a.Blocked, sched.Outcome(b), b.Blocked)
			}
		}
	}
	return res
}

type planState struct {
	execs, steps, states, pruned int
	outcomes                     map[string]int
	known                        map[string]int
	boundDone                    map[int]bool // bound fully explored
	boundPending                 map[int]int  // outstanding items per bound
	boundIncomplete              map[int]bool
	maxDepth                     int
	sample                       []int
}

type proc struct {
	cmd *exec.Cmd
	in  *bufio.Writer
	out *bufio.Reader
}

func startWorker(checkID, tier string) (*proc, error) {
	self, err := os.Executable()
	if err != nil {
		return nil, err
	}
	cmd := exec.Command(self, "worker", checkID, tier)
	cmd.Env = append(os.Environ(), "GOMAXPROCS=2", "GOGC=200")
	cmd.Stderr = os.Stderr
	stdin, err := cmd.StdinPipe()
	if err != nil {
		return nil, err
	}
	stdout, err := cmd.StdoutPipe()
	if err != nil {
		return nil, err
	}
	if err := cmd.Start(); err != nil {
		return nil, err
	}
	return &proc{cmd: cmd, in: bufio.NewWriter(stdin), out: bufio.NewReaderSize(stdout, 1<<20)}, nil
}

func (p *proc) do(it workItem) (workResult, error) {
	var res workResult
	b, _ := json.Marshal(it)
	if _, err := p.in.Write(append(b, '\n')); err != nil {
		return res, err
	}
	if err := p.in.Flush(); err != nil {
		return res, err
	}
	line, err := p.out.ReadBytes('\n')
	if err != nil {
		return res, fmt.Errorf("worker died: %v", err)
	}
	if err := json.Unmarshal(line, &res); err != nil {
		return res, err
	}
	return res, nil
}

func (p *proc) stop() {
	_ = p.cmd.Process.Kill()
	_ = p.cmd.Wait()
}

func envInt(name string, def int) int {
	if v := os.Getenv(name); v != "" {
		if n, err := strconv.Atoi(v); err == nil {
			return n
		}
	}
	return def
}

// RunCheck is the parent: it distributes the plans of a check over workers.
// Exit code: 0 held, 1 violation, 2 harness failure.
func RunCheck(checkID, tier string) int {
	t0 := time.Now()
	c := registry[checkID]
	if c == nil {
		fmt.Fprintln(os.Stderr, "unknown check", checkID)
		return 2
	}
	plans := c.Plans(tier)
	if len(plans) == 0 {
		fmt.Fprintln(os.Stderr, "no plans for", checkID, tier)
		return 2
	}
	known, err := LoadKnown(verifDir() + "/known_findings.json")
	if err != nil {
		fmt.Fprintln(os.Stderr, "known findings:", err)
		return 2
	}
	budget := c.Budget[tier]
	if budget == 0 {
		budget = 120
	}
	budget = envInt("VERIF_BUDGET_S", budget)
	deadline := t0.Add(time.Duration(budget) * time.Second)
	nw := envInt("VERIF_WORKERS", runtime.NumCPU())
	seed := envInt("VERIF_SEED", 0)

	states := make([]*planState, len(plans))
	for i := range states {
		states[i] = &planState{outcomes: map[string]int{}, known: map[string]int{}, boundDone: map[int]bool{}, boundPending: map[int]int{}, boundIncomplete: map[int]bool{}}
	}
	// items ordered by bound rank then plan (seed rotates the plan order only)
	var queue []workItem
	maxRank := 0
	for _, p := range plans {
		if len(p.Bounds) > maxRank {
			maxRank = len(p.Bounds)
		}
	}
	for r := 0; r < maxRank; r++ {
		for k := range plans {
			i := (k + seed) % len(plans)
			if r < len(plans[i].Bounds) {
				queue = append(queue, workItem{Plan: i, Bound: plans[i].Bounds[r], OnlyRoot: plans[i].Split})
				states[i].boundPending[plans[i].Bounds[r]]++
			}
		}
	}

	var mu sync.Mutex
	cond := sync.NewCond(&mu)
	inflight := 0
	var viols []workResult
	var knownViols []workResult
	var harnessErr []string
	skipped := 0
	stopAll := false

	next := func() (workItem, bool) {
		mu.Lock()
		defer mu.Unlock()
		for {
			if stopAll {
				return workItem{}, false
			}
			if len(queue) > 0 {
				it := queue[0]
				queue = queue[1:]
				if time.Now().After(deadline) {
					states[it.Plan].boundIncomplete[it.Bound] = true
					states[it.Plan].boundPending[it.Bound]--
					skipped++
					continue
				}
				it.Deadline = deadline.Unix()
				inflight++
				return it, true
			}
			if inflight == 0 {
				return workItem{}, false
			}
			cond.Wait()
		}
	}
	finish := func(res workResult, err error) {
		mu.Lock()
		defer mu.Unlock()
		inflight--
		defer cond.Broadcast()
		it := res.Item
		ps := states[it.Plan]
		if err != nil {
			harnessErr = append(harnessErr, fmt.Sprintf("%s: %v", plans[it.Plan].Scen.Name, err))
			stopAll = true
			return
		}
		if res.Err != "" {
			harnessErr = append(harnessErr, fmt.Sprintf("%s: %s", plans[it.Plan].Scen.Name, res.Err))
			stopAll = true
			return
		}
		if res.Nondet != "" {
			harnessErr = append(harnessErr, fmt.Sprintf("%s: nondeterminism: %s", plans[it.Plan].Scen.Name, res.Nondet))
			stopAll = true
			return
		}
		ps.execs += res.Stats.Execs
		ps.steps += res.Stats.Steps
		ps.states += res.Stats.States
		ps.pruned += res.Stats.Pruned
		if res.Stats.MaxDepth > ps.maxDepth {
			ps.maxDepth = res.Stats.MaxDepth
		}
		if ps.sample == nil && len(res.Stats.LastChoices) > 0 {
			ps.sample = res.Stats.LastChoices
		}
		for k, v := range res.Stats.Outcomes {
			ps.outcomes[k] += v
		}
		for k, v := range res.Known {
			ps.known[k] += v
		}
		if !res.Stats.Complete {
			ps.boundIncomplete[it.Bound] = true
		}
		if res.Viol != nil {
			if strings.HasPrefix(res.Viol.Msg, "HARNESS") {
				harnessErr = append(harnessErr, fmt.Sprintf("%s: %s choices=%v", plans[it.Plan].Scen.Name, res.Viol.Msg, res.Viol.Choices))
				stopAll = true
				return
			}
			viols = append(viols, res)
			if len(viols) >= 5 {
				stopAll = true // enough counterexamples for one run
			}
			ps.boundIncomplete[it.Bound] = true
			// drop the remaining work of this plan: one counterexample per scenario is enough
			var q []workItem
			for _, o := range queue {
				if o.Plan != it.Plan {
					q = append(q, o)
				} else {
					ps.boundPending[o.Bound]--
				}
			}
			queue = q
		}
		if it.OnlyRoot && res.Viol == nil {
			for _, ch := range res.Stats.Children {
				queue = append(queue, workItem{Plan: it.Plan, Bound: it.Bound, Root: ch.Prefix, RootSigs: ch.Sigs})
				ps.boundPending[it.Bound]++
			}
		}
		ps.boundPending[it.Bound]--
		if ps.boundPending[it.Bound] == 0 && !ps.boundIncomplete[it.Bound] {
			ps.boundDone[it.Bound] = true
		}
	}

	var wg sync.WaitGroup
	procs := make([]*proc, nw)
	for w := 0; w < nw; w++ {
		p, err := startWorker(checkID, tier)
		if err != nil {
			fmt.Fprintln(os.Stderr, "start worker:", err)
			return 2
		}
		procs[w] = p
		wg.Add(1)
		go func(p *proc) {
			defer wg.Done()
			for {
				it, ok := next()
				if !ok {
					return
				}
				res, err := p.do(it)
				res.Item = it
				finish(res, err)
			}
		}(p)
	}
	wg.Wait()
	_ = knownViols

	exit := 0
	if len(harnessErr) > 0 {
		for _, h := range harnessErr {
			fmt.Fprintln(os.Stderr, "HARNESS-ERROR:", h)
		}
		exit = 2
	}

	// confirm each violation 5x on a worker, write replay files
	nviol := 0
	sort.Slice(viols, func(i, j int) bool { return plans[viols[i].Item.Plan].Scen.Name < plans[viols[j].Item.Plan].Scen.Name })
	for _, v := range viols {
		s := plans[v.Item.Plan].Scen
		stable := true
		var last workResult
		for k := 0; k < 5; k++ {
			r, err := procs[0].do(workItem{Plan: v.Item.Plan, IsReplay: true, Replay: v.Viol.Choices})
			if err != nil || r.Err != "" {
				fmt.Fprintln(os.Stderr, "HARNESS-ERROR: replay failed:", err, r.Err)
				stable = false
				exit = 2
				break
			}
			if r.ReplayMsg != v.Viol.Msg {
				fmt.Fprintf(os.Stderr, "HARNESS-ERROR: %s: violation did not replay identically:\n  first: %s\n  replay: %s\n", s.Name, v.Viol.Msg, r.ReplayMsg)
				stable = false
				exit = 2
				break
			}
			last = r
		}
		if !stable {
			continue
		}
		nviol++
		path := writeReplay(checkID, tier, s.Name, v.Viol, last.Trace)
		fmt.Printf("VIOLATION property=%s replay=%s\n", checkID, path)
		fmt.Printf("  scenario: %s\n  %s", s.Name, indent(sched.FormatViolation(v.Viol)))
		if exit == 0 {
			exit = 1
		}
	}
	for _, p := range procs {
		p.stop()
	}

	// known findings seen in this run
	knownSeen := map[string]int{}
	for _, ps := range states {
		for k, n := range ps.known {
			knownSeen[k] += n
		}
	}
	var kids []string
	for k := range knownSeen {
		kids = append(kids, k)
	}
	sort.Strings(kids)
	for _, id := range kids {
		for _, k := range known {
			if k.ID == id && k.Property == checkID {
				fmt.Printf("KNOWN-FINDING: property=%s %s: %s (%d executions)\n", checkID, k.ID, k.Title, knownSeen[id])
			}
		}
	}

	// evidence
	tot := planState{outcomes: map[string]int{}}
	var perScen []map[string]any
	exhaustive := true
	distinctOutcomes := 0
	var samples []any
	for i, p := range plans {
		ps := states[i]
		tot.execs += ps.execs
		tot.steps += ps.steps
		tot.states += ps.states
		tot.pruned += ps.pruned
		distinctOutcomes += len(ps.outcomes)
		var done []int
		for _, b := range p.Bounds {
			if ps.boundDone[b] {
				done = append(done, b)
			} else {
				exhaustive = false
			}
		}
		row := map[string]any{"scenario": p.Scen.Name, "cost_model": p.Scen.Model.String(), "bounds_planned": p.Bounds, "bounds_completed": done, "executions": ps.execs, "hb_states": ps.states, "pruned": ps.pruned, "decision_points": ps.steps, "distinct_outcomes": len(ps.outcomes), "max_depth": ps.maxDepth}
		if len(ps.known) > 0 {
			row["known_findings_hit"] = ps.known
		}
		perScen = append(perScen, row)
		if len(samples) < 4 && ps.sample != nil {
			var oc string
			for k := range ps.outcomes {
				oc = k
				break
			}
			samples = append(samples, map[string]any{"scenario": p.Scen.Name, "schedule_choices": ps.sample, "an_outcome": oc})
		}
	}
	if len(samples) == 0 {
		samples = append(samples, map[string]any{"note": "no execution completed"})
	}
	// completion summary per bound; incomplete scenarios are always listed (first), the table of
	// complete ones is cut at 400 rows
	boundSummary := map[string]map[string]int{}
	var incomplete, complete []map[string]any
	for _, row := range perScen {
		planned, _ := row["bounds_planned"].([]int)
		done, _ := row["bounds_completed"].([]int)
		isDone := map[int]bool{}
		for _, b := range done {
			isDone[b] = true
		}
		for _, b := range planned {
			k := fmt.Sprintf("bound %d", b)
			if b < 0 {
				k = "unbounded"
			}
			if boundSummary[k] == nil {
				boundSummary[k] = map[string]int{}
			}
			boundSummary[k]["scenarios_planned"]++
			if isDone[b] {
				boundSummary[k]["scenarios_completed"]++
			}
		}
		if len(done) != len(planned) {
			incomplete = append(incomplete, row)
		} else {
			complete = append(complete, row)
		}
	}
	rowsTotal := len(perScen)
	if len(complete) > 400 {
		complete = complete[:400]
	}
	perScen = append(incomplete, complete...)
	ev := &Evidence{PropertyID: checkID, Tier: tier, Seed: seed, Level: "model_checking", WallS: time.Since(t0).Seconds(), Violations: nviol,
		Coverage: map[string]any{
			"states":                        max(tot.states, 1),
			"transitions":                   max(tot.steps, 1),
			"traces_validated_against_impl": tot.execs,
			"samples":                       samples,
			"executions":                    tot.execs,
			"pruned_by_hb_cache":            tot.pruned,
			"scenarios":                     len(plans),
			"distinct_outcomes":             distinctOutcomes,
			"exhaustive":                    exhaustive && exit == 0,
			"items_skipped_on_budget":       skipped,
			"budget_s":                      budget,
			"workers":                       nw,
			"per_scenario":                  perScen,
			"per_scenario_rows_total":       rowsTotal,
			"scenarios_incomplete":          len(incomplete),
			"completion_by_bound":           boundSummary,
			"explanation":                   "stateless exploration of the real (overlay-instrumented) implementation under a controlled scheduler; states = distinct happens-before state keys (or executions where the cache is off), transitions = scheduling decision points, every trace is an implementation run. " + c.Notes,
		},
		Assumptions: []string{
			"data-race freedom of the code between scheduling points (validated separately by the free-running -race pass)",
			"sequentially consistent atomics (Go memory model)",
			"bounds as listed per scenario; transports are in-memory models",
		},
	}
	if err := WriteEvidence(ev); err != nil {
		fmt.Fprintln(os.Stderr, "evidence:", err)
		return 2
	}
	fmt.Printf("%s %s: scenarios=%d executions=%d states=%d points=%d outcomes=%d exhaustive=%v wall=%.1fs exit=%d\n", checkID, tier, len(plans), tot.execs, tot.states, tot.steps, distinctOutcomes, exhaustive, time.Since(t0).Seconds(), exit)
	return exit
}

func indent(s string) string { return strings.ReplaceAll(s, "\n", "\n  ") + "\n" }

func writeReplay(checkID, tier, scen string, v *sched.Violation, trace []string) string {
	dir := verifDir() + "/replays"
	_ = os.MkdirAll(dir, 0o755)
	h := sha1.Sum([]byte(scen + fmt.Sprint(v.Choices)))
	path := fmt.Sprintf("%s/%s-%x.json", dir, checkID, h[:5])
	doc := map[string]any{"property": checkID, "tier": tier, "scenario": scen, "message": v.Msg, "choices": v.Choices, "obs": v.Obs, "blocked": v.Blocked, "panics": v.Panics, "trace": trace}
	b, _ := json.MarshalIndent(doc, "", " ")
	_ = os.WriteFile(path, b, 0o644)
	return path
}

// ReplayFile re-runs the schedule stored in a replay file (no search).
func ReplayFile(path string) int {
	b, err := os.ReadFile(path)
	if err != nil {
		fmt.Fprintln(os.Stderr, err)
		return 2
	}
	var doc struct {
		Property, Tier, Scenario, Message string
		Choices                           []int
	}
	if err := json.Unmarshal(b, &doc); err != nil {
		fmt.Fprintln(os.Stderr, err)
		return 2
	}
	c := registry[doc.Property]
	if c == nil {
		fmt.Fprintln(os.Stderr, "unknown check", doc.Property)
		return 2
	}
	for _, tier := range []string{doc.Tier, "quick", "thorough"} {
		for _, p := range c.Plans(tier) {
			if p.Scen.Name == doc.Scenario {
				e := sched.Replay(opts(p.Scen), doc.Choices, p.Scen.Body)
				msg := p.Scen.Check(e)
				for _, t := range e.Trace {
					fmt.Println("  ", t)
				}
				for _, o := range e.Obs {
					fmt.Println("  obs:", o)
				}
				for _, g := range e.Blocked {
					fmt.Printf("  blocked: %s @ %s %s\n", g.Name, g.What, g.Note)
				}
				if e.Diverged != "" {
					fmt.Println("DIVERGED:", e.Diverged)
					return 2
				}
				if msg != "" {
					fmt.Printf("VIOLATION property=%s replay=%s\n  %s\n", doc.Property, path, msg)
					return 1
				}
				fmt.Println("schedule replayed: property holds on it")
				return 0
			}
		}
	}
	fmt.Fprintln(os.Stderr, "scenario not found:", doc.Scenario)
	return 2
}

// Main is the entry point of the mc binary.
func Main() {
	if len(os.Args) < 2 {
		fmt.Fprintln(os.Stderr, "usage: mc check <id> <tier> | worker <id> <tier> | replay <file> | list <id> <tier>")
		os.Exit(2)
	}
	switch os.Args[1] {
	case "check":
		os.Exit(RunCheck(os.Args[2], os.Args[3]))
	case "worker":
		os.Exit(worker(os.Args[2], os.Args[3]))
	case "replay":
		os.Exit(ReplayFile(os.Args[2]))
	case "list":
		for _, p := range registry[os.Args[2]].Plans(os.Args[3]) {
			fmt.Println(p.Scen.Name, p.Bounds)
		}
	case "selftest":
		os.Exit(SelfTest())
	case "explore": // debug: explore <id> <tier> <scenario substring> <bound>
		bound, _ := strconv.Atoi(os.Args[5])
		for _, p := range registry[os.Args[2]].Plans(os.Args[3]) {
			if !strings.Contains(p.Scen.Name, os.Args[4]) {
				continue
			}
			s := p.Scen
			st, v := sched.Explore(sched.Config{Model: s.Model, Bound: bound, NoCache: s.NoCache, Opts: opts(s)}, s.Body, s.Check)
			fmt.Printf("%s: execs=%d states=%d depth=%d\n", s.Name, st.Execs, st.States, st.MaxDepth)
			for o, n := range st.Outcomes {
				fmt.Printf("   %6d  %s\n", n, o)
			}
			if v != nil {
				fmt.Println(sched.FormatViolation(v))
				e := sched.Replay(opts(s), v.Choices, s.Body)
				for _, t := range e.Trace {
					fmt.Println("    ", t)
				}
			}
		}
	case "trace": // debug: trace <id> <tier> <scenario substring> <choices: "i=c,i=c" sparse list>
		for _, p := range registry[os.Args[2]].Plans(os.Args[3]) {
			if !strings.Contains(p.Scen.Name, os.Args[4]) {
				continue
			}
			s := p.Scen
			sparse := map[int]int{}
			maxI := -1
			if len(os.Args) > 5 && os.Args[5] != "" {
				for _, kv := range strings.Split(os.Args[5], ",") {
					var i, c int
					fmt.Sscanf(kv, "%d=%d", &i, &c)
					sparse[i] = c
					if i > maxI {
						maxI = i
					}
				}
			}
			choices := make([]int, maxI+1)
			for i, c := range sparse {
				choices[i] = c
			}
			e := sched.Replay(opts(s), choices, s.Body)
			fmt.Println(s.Name)
			for i, t := range e.Trace {
				fmt.Printf("%5d %s\n", i, t)
			}
			fmt.Println("obs:", e.Obs, "check:", s.Check(e))
			break
		}
	default:
		os.Exit(2)
	}
}
