// Package mc is the check framework on top of the scheduler: scenario registry,
// sharded exploration over worker processes, known-finding matching, evidence.
// This file holds what both bindings (controlled scheduler / free-running) share.
package mc

import (
	"encoding/json"
	"os"
	"regexp"

	"verif/engine/sched"
)

// Scenario is one closed harness around the real code.
type Scenario struct {
	Name  string
	Body  func()
	Check sched.CheckFunc
	Model sched.CostModel
	Fine  bool
	// AfterRelease adds a scheduling point after every mutex release (see sched.Opts).
	AfterRelease bool
	// NoCache disables happens-before state caching (two-endpoint harnesses: the
	// cache prunes little there and std context state is not hashed).
	NoCache bool
	StepCap int
	// Reverse explores relative to the reversed default schedule (see sched.Opts.Reverse).
	Reverse bool
}

// Reversed returns a twin of the scenario explored relative to the reversed default schedule.
func (s *Scenario) Reversed() *Scenario {
	t := *s
	t.Name = s.Name + " <reversed default schedule>"
	t.Reverse = true
	return &t
}

// Plan says how deep a scenario is explored in a tier.
type Plan struct {
	Scen   *Scenario
	Bounds []int // explored in this order (a bound of -1 = unbounded)
	Split  bool  // shard the top level of the search tree over workers
}

// Check is a registered property check.
type Check struct {
	ID    string
	Plans func(tier string) []Plan
	// Budget is the wall-clock budget in seconds per tier.
	Budget map[string]int
	Notes  string
}

var registry = map[string]*Check{}

// Register adds a check.
func Register(c *Check) { registry[c.ID] = c }

// KnownFinding is an entry of known_findings.json.
type KnownFinding struct {
	Status   string `json:"status"` // "known" | "fixed"
	Property string `json:"property"`
	ID       string `json:"id"`
	Title    string `json:"title"`
	Scenario string `json:"scenario,omitempty"` // regexp on the scenario name
	Message  string `json:"message,omitempty"`  // regexp on the violation message
	Input    string `json:"input,omitempty"`    // sequential checks: exact input key
	Commit   string `json:"commit,omitempty"`
	reS, reM *regexp.Regexp
}

// LoadKnown reads known_findings.json.
func LoadKnown(path string) ([]*KnownFinding, error) {
	b, err := os.ReadFile(path)
	if err != nil {
		if os.IsNotExist(err) {
			return nil, nil
		}
		return nil, err
	}
	var doc struct {
		Findings []*KnownFinding `json:"findings"`
	}
	if err := json.Unmarshal(b, &doc); err != nil {
		return nil, err
	}
	for _, k := range doc.Findings {
		if k.Scenario != "" {
			k.reS = regexp.MustCompile(k.Scenario)
		}
		if k.Message != "" {
			k.reM = regexp.MustCompile(k.Message)
		}
	}
	return doc.Findings, nil
}

func matchKnown(known []*KnownFinding, prop, scen, msg string) *KnownFinding {
	for _, k := range known {
		if k.Status != "known" || k.Property != prop || k.reM == nil {
			continue
		}
		if k.reS != nil && !k.reS.MatchString(scen) {
			continue
		}
		if k.reM.MatchString(msg) {
			return k
		}
	}
	return nil
}

func verifDir() string {
	if d := os.Getenv("VERIF_DIR"); d != "" {
		return d
	}
	return "/verif"
}

// Evidence is written to evidence/<id>.json.
type Evidence struct {
	PropertyID  string         `json:"property_id"`
	Tier        string         `json:"tier"`
	Seed        int            `json:"seed"`
	Level       string         `json:"level"`
	Coverage    map[string]any `json:"coverage"`
	Assumptions []string       `json:"assumptions,omitempty"`
	WallS       float64        `json:"wall_s"`
	Violations  int            `json:"violations"`
}

// EvidenceDir is /verif/evidence unless VERIF_EVIDENCE_DIR redirects it (runs against a scratch
// worktree must not overwrite the evidence of the real tree).
func EvidenceDir() string {
	if d := os.Getenv("VERIF_EVIDENCE_DIR"); d != "" {
		return d
	}
	return verifDir() + "/evidence"
}

// WriteEvidence writes the evidence file atomically.
func WriteEvidence(ev *Evidence) error {
	dir := EvidenceDir()
	_ = os.MkdirAll(dir, 0o755)
	b, _ := json.MarshalIndent(ev, "", " ")
	tmp := dir + "/." + ev.PropertyID + ".tmp"
	if err := os.WriteFile(tmp, append(b, '\n'), 0o644); err != nil {
		return err
	}
	return os.Rename(tmp, dir+"/"+ev.PropertyID+".json")
}

// MatchSeq matches a sequential-check violation (family name, message).
func (k *KnownFinding) MatchSeq(family, msg string) bool {
	if k.reM == nil {
		return false
	}
	if k.reS != nil && !k.reS.MatchString(family) {
		return false
	}
	return k.reM.MatchString(msg)
}

// Registry returns the registered checks.
func Registry() map[string]*Check { return registry }

// SelfTestScenarios are registered by checks that volunteer small scenarios for
// the engine self-test (outcome set with the cache == outcome set without it).
var SelfTestScenarios []*Scenario

// WithReversed appends, for every plan, a twin explored relative to the reversed default
// schedule, restricted to the bounds <= maxBound (and >= 0).
func WithReversed(plans []Plan, maxBound int) []Plan {
	out := append([]Plan{}, plans...)
	for _, p := range plans {
		var bs []int
		for _, b := range p.Bounds {
			if b >= 0 && b <= maxBound {
				bs = append(bs, b)
			}
		}
		if len(bs) == 0 {
			continue
		}
		out = append(out, Plan{Scen: p.Scen.Reversed(), Bounds: bs, Split: p.Split && bs[len(bs)-1] >= 2})
	}
	return out
}
