//go:build vsreal

package mc

import (
	"fmt"
	"os"
	"strconv"
	"time"

	"verif/engine/sched"
)

// RaceMain runs the scenario bodies of a check on real goroutines (the binary is
// built with -race): `mcreal race <id> <tier> <seconds>`. Oracles are not
// evaluated; the race detector's log is inspected by the caller.
func RaceMain() {
	if len(os.Args) < 5 || os.Args[1] != "race" {
		fmt.Fprintln(os.Stderr, "usage: mcreal race <id> <tier> <seconds>")
		os.Exit(2)
	}
	c := registry[os.Args[2]]
	if c == nil {
		fmt.Fprintln(os.Stderr, "unknown check", os.Args[2])
		os.Exit(2)
	}
	secs, _ := strconv.Atoi(os.Args[4])
	deadline := time.Now().Add(time.Duration(secs) * time.Second)
	plans := c.Plans(os.Args[3])
	runs, hung, panics := 0, 0, 0
	shard, nshards := 0, 1
	if v := os.Getenv("VERIF_RACE_SHARD"); v != "" {
		fmt.Sscanf(v, "%d/%d", &shard, &nshards)
	}
	base := 0
	if v := os.Getenv("VERIF_RACE_ROUND"); v != "" {
		fmt.Sscan(v, &base)
	}
	for round := base * 1000; time.Now().Before(deadline); round++ {
		for i, p := range plans {
			if i%nshards != shard {
				continue
			}
			if time.Now().After(deadline) {
				break
			}
			e, ok := sched.RunReal(int64(round*7919+i), 3*time.Second, p.Scen.Body)
			runs++
			if runs%20 == 0 {
				fmt.Printf("RACE-PROGRESS runs=%d\n", runs)
			}
			if !ok {
				hung++
			}
			if len(e.Panics) > 0 {
				panics++
			}
		}
	}
	fmt.Printf("RACE-PASS runs=%d scenarios=%d unfinished=%d panics=%d\n", runs, len(plans), hung, panics)
}
