//go:build !vsreal

package mc

import (
	"fmt"
	"sort"
	"strings"

	"verif/engine/sched"
)

func outcomeSet(st sched.Stats) string {
	var ks []string
	for k := range st.Outcomes {
		ks = append(ks, k)
	}
	sort.Strings(ks)
	return strings.Join(ks, "\n")
}

// SelfTest checks the engine against itself.
func SelfTest() int {
	bad := 0
	for _, s := range SelfTestScenarios {
		for _, bound := range []int{0, 1, 2, -1} {
			a, va := sched.Explore(sched.Config{Model: s.Model, Bound: bound, Opts: opts(s), MaxExecs: 400000}, s.Body, s.Check)
			b, vb := sched.Explore(sched.Config{Model: s.Model, Bound: bound, NoCache: true, Opts: opts(s), MaxExecs: 400000}, s.Body, s.Check)
			if va != nil || vb != nil {
				fmt.Printf("selftest %s bound=%d: unexpected violation %v %v\n", s.Name, bound, va, vb)
				bad++
				continue
			}
			if !a.Complete || !b.Complete {
				fmt.Printf("selftest %s bound=%d: skipped (cap) cache=%d nocache=%d\n", s.Name, bound, a.Execs, b.Execs)
				continue
			}
			if outcomeSet(a) != outcomeSet(b) {
				fmt.Printf("selftest %s bound=%d: OUTCOME SETS DIFFER cache=%d (%d execs) nocache=%d (%d execs)\n", s.Name, bound, len(a.Outcomes), a.Execs, len(b.Outcomes), b.Execs)
				bad++
				continue
			}
			fmt.Printf("selftest %s bound=%d: ok outcomes=%d execs cache=%d nocache=%d\n", s.Name, bound, len(a.Outcomes), a.Execs, b.Execs)
		}
	}
	if bad > 0 {
		return 2
	}
	return 0
}
