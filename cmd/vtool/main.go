// vtool: orchestration (instrument, build, run checks, write evidence).
package main

import (
	"fmt"
	"os"

	"verif/engine/instrument"
)

func main() {
	if len(os.Args) < 2 {
		fmt.Fprintln(os.Stderr, "usage: vtool instrument <repo> <out> | check <id> <tier> | replay <file>")
		os.Exit(2)
	}
	switch os.Args[1] {
	case "instrument":
		res, err := instrument.Run(os.Args[2], os.Args[3], nil)
		if err != nil {
			fmt.Fprintln(os.Stderr, "instrument:", err)
			os.Exit(2)
		}
		fmt.Printf("instrumented %d files -> %s %v\n", res.Files, res.Overlay, res.Counts)
	default:
		os.Exit(cmdMain(os.Args[1:]))
	}
}
