package main

import (
	"fmt"
	"os"
	"os/exec"
	"path/filepath"
	"strings"
	"syscall"

	"verif/engine/instrument"
)

// repoDir is the storj/drpc tree under test: /repo unless VERIF_REPO points at a scratch
// worktree (used to try changes without touching /repo).
var repoDir = func() string {
	if d := os.Getenv("VERIF_REPO"); d != "" {
		return d
	}
	return "/repo"
}()

// modArgs returns the extra go build arguments that bind the harness module to repoDir.
func modArgs(scratch string) ([]string, error) {
	if repoDir == "/repo" {
		return nil, nil
	}
	b, err := os.ReadFile(filepath.Join(verifDir(), "go.mod"))
	if err != nil {
		return nil, err
	}
	mod := strings.Replace(string(b), "storj.io/drpc => /repo", "storj.io/drpc => "+repoDir, 1)
	mf := filepath.Join(scratch, "go.mod")
	if err := os.WriteFile(mf, []byte(mod), 0o644); err != nil {
		return nil, err
	}
	if sum, err := os.ReadFile(filepath.Join(verifDir(), "go.sum")); err == nil {
		_ = os.WriteFile(filepath.Join(scratch, "go.sum"), sum, 0o644)
	}
	return []string{"-modfile=" + mf}, nil
}

// engineChecks are decided by the scheduler-based explorer (mc binary, overlay build);
// the others by the sequential enumerator (seq binary, plain build).
var engineChecks = map[string]bool{
	"C01": true, "C02": true, "C03": true, "C04": true, "C05": true, "C06": true, "C07": true,
	"C10": true, "C11": true, "C12": true, "C13": true, "C15": true, "C16": true, "C18": true, "C19": true,
}

// raceChecks get the free-running -race pass after their exhaustive part.
var raceChecks = map[string]bool{
	"C01": true, "C02": true, "C03": true, "C04": true, "C05": true, "C06": true, "C07": true,
	"C10": true, "C11": true, "C12": true, "C13": true, "C15": true, "C16": true, "C18": true, "C19": true,
}

// seqChecks have a sequential-enumeration part (for C11 and C13 in addition to the engine part).
var seqChecks = map[string]bool{
	"C08": true, "C09": true, "C11": true, "C13": true, "C14": true, "C17": true, "C18": true,
}

func verifDir() string {
	if d := os.Getenv("VERIF_DIR"); d != "" {
		return d
	}
	return "/verif"
}

func evidenceDir() string {
	if d := os.Getenv("VERIF_EVIDENCE_DIR"); d != "" {
		return d
	}
	return filepath.Join(verifDir(), "evidence")
}

func goEnv() []string {
	env := os.Environ()
	env = append(env, "GOFLAGS=-mod=mod", "GOPROXY=off", "GOSUMDB=off", "GOTOOLCHAIN=local")
	return env
}

func runCmd(dir string, stdout *os.File, name string, args ...string) (int, error) {
	cmd := exec.Command(name, args...)
	cmd.Dir = dir
	cmd.Env = goEnv()
	cmd.Stdout = stdout
	cmd.Stderr = os.Stderr
	err := cmd.Run()
	if err != nil {
		if ee, ok := err.(*exec.ExitError); ok {
			if ws, ok := ee.Sys().(syscall.WaitStatus); ok {
				return ws.ExitStatus(), nil
			}
		}
		return 2, err
	}
	return 0, nil
}

// buildMC instruments the current /repo tree and builds the mc binary into scratch.
func buildMC(scratch string) (string, error) {
	gen := filepath.Join(scratch, "gen")
	res, err := instrument.Run(repoDir, gen, nil)
	if err != nil {
		return "", fmt.Errorf("instrument: %w", err)
	}
	bin := filepath.Join(scratch, "mc")
	margs, err := modArgs(scratch)
	if err != nil {
		return "", err
	}
	args := append([]string{"build"}, margs...)
	args = append(args, "-overlay", res.Overlay, "-o", bin, "./cmd/mc")
	code, err := runCmd(verifDir(), os.Stderr, "go", args...)
	if err != nil || code != 0 {
		return "", fmt.Errorf("building mc with overlay failed (exit %d): %v", code, err)
	}
	return bin, nil
}

func buildSeq(scratch string) (string, error) {
	bin := filepath.Join(scratch, "seq")
	margs, err := modArgs(scratch)
	if err != nil {
		return "", err
	}
	args := append([]string{"build"}, margs...)
	args = append(args, "-o", bin, "./cmd/seq")
	code, err := runCmd(verifDir(), os.Stderr, "go", args...)
	if err != nil || code != 0 {
		return "", fmt.Errorf("building seq failed (exit %d): %v", code, err)
	}
	return bin, nil
}

func cmdMain(args []string) int {
	switch args[0] {
	case "check":
		if len(args) < 3 {
			fmt.Fprintln(os.Stderr, "usage: vtool check <id> <quick|thorough>")
			return 2
		}
		return doCheck(args[1], args[2])
	case "replay":
		return doReplay(args[1])
	case "build":
		// vtool build <dir>: instrument + build the mc binary into <dir> and keep it (for debugging)
		if err := os.MkdirAll(args[1], 0o755); err != nil {
			fmt.Fprintln(os.Stderr, err)
			return 2
		}
		bin, err := buildMC(args[1])
		if err != nil {
			fmt.Fprintln(os.Stderr, err)
			return 2
		}
		fmt.Println(bin)
		return 0
	case "selftest":
		scratch, err := os.MkdirTemp("/var/tmp", "verif-")
		if err != nil {
			fmt.Fprintln(os.Stderr, err)
			return 2
		}
		defer os.RemoveAll(scratch)
		bin, err := buildMC(scratch)
		if err != nil {
			fmt.Fprintln(os.Stderr, err)
			return 2
		}
		code, _ := runCmd(verifDir(), os.Stdout, bin, "selftest")
		return code
	}
	fmt.Fprintln(os.Stderr, "unknown command", args[0])
	return 2
}

func doCheck(id, tier string) int {
	scratch, err := os.MkdirTemp("/var/tmp", "verif-")
	if err != nil {
		fmt.Fprintln(os.Stderr, err)
		return 2
	}
	defer os.RemoveAll(scratch)
	if !engineChecks[id] && !seqChecks[id] {
		fmt.Fprintln(os.Stderr, "unknown check", id)
		return 2
	}
	if repoDir != "/repo" && os.Getenv("VERIF_EVIDENCE_DIR") == "" {
		// a run against a scratch worktree must not overwrite the evidence of the real tree
		_ = os.Setenv("VERIF_EVIDENCE_DIR", "/var/tmp/verif-evidence-scratch")
	}
	_ = os.Remove(filepath.Join(evidenceDir(), id+".json"))
	worst := 0
	if engineChecks[id] {
		bin, err := buildMC(scratch)
		if err != nil {
			fmt.Fprintln(os.Stderr, "BUILD-FAILED:", err)
			return 2
		}
		code, err := runCmd(verifDir(), os.Stdout, bin, "check", id, tier)
		if err != nil {
			fmt.Fprintln(os.Stderr, err)
			return 2
		}
		worst = code
		if worst == 0 && raceChecks[id] {
			if rc := racePass(id, tier, scratch); rc > worst {
				worst = rc
			}
		}
	}
	if seqChecks[id] && worst != 2 {
		bin, err := buildSeq(scratch)
		if err != nil {
			fmt.Fprintln(os.Stderr, "BUILD-FAILED:", err)
			return 2
		}
		// a hybrid check merges its sequential coverage into the evidence the engine part wrote
		code, err := runCmd(verifDir(), os.Stdout, bin, "check", id, tier)
		if err != nil {
			fmt.Fprintln(os.Stderr, err)
			return 2
		}
		if code > worst {
			worst = code
		}
	}
	return worst
}

func doReplay(path string) int {
	b, err := os.ReadFile(path)
	if err != nil {
		fmt.Fprintln(os.Stderr, err)
		return 2
	}
	id := ""
	if i := strings.Index(string(b), `"property": "`); i >= 0 {
		id = string(b)[i+13 : i+16]
	}
	scratch, err := os.MkdirTemp("/var/tmp", "verif-")
	if err != nil {
		fmt.Fprintln(os.Stderr, err)
		return 2
	}
	defer os.RemoveAll(scratch)
	var bin string
	if strings.Contains(string(b), `"sequential": true`) || !engineChecks[id] {
		bin, err = buildSeq(scratch)
	} else {
		bin, err = buildMC(scratch)
	}
	if err != nil {
		fmt.Fprintln(os.Stderr, "BUILD-FAILED:", err)
		return 2
	}
	code, _ := runCmd(verifDir(), os.Stdout, bin, "replay", path)
	return code
}
