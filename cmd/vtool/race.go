package main

import (
	"bufio"
	"crypto/sha1"
	"encoding/json"
	"fmt"
	"os"
	"os/exec"
	"path/filepath"
	"regexp"
	"runtime"
	"strings"
	"sync"
	"time"
)

// racePass builds the scenario bodies of an engine check WITHOUT the overlay, bound to
// real goroutines (build tag vsreal), with -race, and lets them run free for a while. It is
// a sampling pass whose only role is to validate the explorer's granularity assumption
// (no unsynchronised accesses between scheduling points): a race report whose two stacks
// both lie in the library is fatal for the check.
func racePass(id, tier, scratch string) int {
	secs := 10
	if tier == "thorough" {
		secs = 60
	}
	if v := os.Getenv("VERIF_RACE_S"); v != "" {
		fmt.Sscan(v, &secs)
	}
	if secs <= 0 {
		return 0
	}
	bin := filepath.Join(scratch, "mcreal")
	margs, err := modArgs(scratch)
	if err != nil {
		fmt.Fprintln(os.Stderr, err)
		return 2
	}
	args := append([]string{"build"}, margs...)
	args = append(args, "-race", "-tags", "vsreal", "-o", bin, "./cmd/mcreal")
	if code, err := runCmd(verifDir(), os.Stderr, "go", args...); err != nil || code != 0 {
		fmt.Fprintln(os.Stderr, "BUILD-FAILED: race build")
		return 2
	}
	shards := 8
	logDir := filepath.Join(scratch, "racelog")
	_ = os.MkdirAll(logDir, 0o755)
	var wg sync.WaitGroup
	outs := make([]string, shards)
	for s := 0; s < shards; s++ {
		wg.Add(1)
		go func(s int) {
			defer wg.Done()
			// the harness bookkeeping is not thread-safe on real goroutines (it relies on the
			// scheduler); a crash of the free-running process only ends that process early, so
			// restart it until the time is used up
			end := time.Now().Add(time.Duration(secs) * time.Second)
			for k := 0; time.Now().Before(end) && k < 50; k++ {
				left := int(time.Until(end).Seconds()) + 1
				cmd := exec.Command(bin, "race", id, tier, fmt.Sprint(left))
				cmd.Env = append(os.Environ(), fmt.Sprintf("GORACE=log_path=%s/s%d-%d halt_on_error=0 exitcode=0", logDir, s, k), fmt.Sprintf("VERIF_RACE_SHARD=%d/%d", s, shards), fmt.Sprintf("VERIF_RACE_ROUND=%d", k))
				b, _ := cmd.CombinedOutput()
				outs[s] += lastCount(string(b))
			}
		}(s)
	}
	wg.Wait()
	runs := 0
	for _, o := range outs {
		for _, f := range strings.Fields(o) {
			var r int
			if n, _ := fmt.Sscanf(f, "%d", &r); n == 1 {
				runs += r
			}
		}
	}
	total, lib := 0, 0
	var first string
	files, _ := filepath.Glob(filepath.Join(logDir, "*"))
	for _, f := range files {
		for _, rep := range splitReports(f) {
			total++
			if libraryRace(rep) {
				lib++
				if first == "" {
					first = rep
				}
			}
		}
	}
	// merge into the evidence file
	evPath := filepath.Join(evidenceDir(), id+".json")
	if b, err := os.ReadFile(evPath); err == nil {
		var ev map[string]any
		if json.Unmarshal(b, &ev) == nil {
			if cov, ok := ev["coverage"].(map[string]any); ok {
				cov["race_pass"] = map[string]any{"free_running_executions": runs, "seconds": secs, "processes": shards, "race_reports_total": total, "race_reports_with_both_stacks_in_the_library": lib,
					"note": "sampling pass on real goroutines under -race; never the deciding step; reports between harness goroutines are expected (the harness relies on the scheduler for ordering) and ignored"}
				if lib > 0 {
					if n, ok := ev["violations"].(float64); ok {
						ev["violations"] = n + 1
					}
				}
				out, _ := json.MarshalIndent(ev, "", " ")
				_ = os.WriteFile(evPath, append(out, '\n'), 0o644)
			}
		}
	}
	fmt.Printf("%s %s (race pass): free-running executions=%d reports=%d library-races=%d\n", id, tier, runs, total, lib)
	if lib > 0 {
		h := sha1.Sum([]byte(first))
		p := filepath.Join(verifDir(), "replays", fmt.Sprintf("%s-race-%x.log", id, h[:5]))
		_ = os.MkdirAll(filepath.Dir(p), 0o755)
		_ = os.WriteFile(p, []byte(first), 0o644)
		fmt.Printf("VIOLATION property=%s replay=%s\n  data race inside the library (both stacks in storj.io/drpc): the exhaustive exploration assumes data-race freedom between scheduling points\n", id, p)
		for i, l := range strings.Split(first, "\n") {
			if i < 14 {
				fmt.Println("   ", l)
			}
		}
		return 1
	}
	return 0
}

// lastCount extracts the number of executions a free-running process completed.
func lastCount(out string) string {
	n := 0
	for _, line := range strings.Split(out, "\n") {
		var r, a, b, c int
		if k, _ := fmt.Sscanf(line, "RACE-PASS runs=%d scenarios=%d unfinished=%d panics=%d", &r, &a, &b, &c); k == 4 {
			n = r
		} else if k, _ := fmt.Sscanf(line, "RACE-PROGRESS runs=%d", &r); k == 1 {
			n = r
		}
	}
	return fmt.Sprintf(" %d", n)
}

func splitReports(path string) []string {
	f, err := os.Open(path)
	if err != nil {
		return nil
	}
	defer f.Close()
	var out []string
	var cur []string
	in := false
	sc := bufio.NewScanner(f)
	sc.Buffer(make([]byte, 1<<20), 1<<24)
	for sc.Scan() {
		l := sc.Text()
		if strings.HasPrefix(l, "WARNING: DATA RACE") {
			in, cur = true, []string{l}
			continue
		}
		if in {
			if strings.HasPrefix(l, "==================") {
				out = append(out, strings.Join(cur, "\n"))
				in = false
				continue
			}
			cur = append(cur, l)
		}
	}
	return out
}

var (
	accessRe = regexp.MustCompile(`^(Read|Write|Previous read|Previous write|Previous atomic \w+|Atomic \w+) at `)
	fileRe   = regexp.MustCompile(`^\s+(/\S+\.go):\d+`)
)

// libraryRace reports whether both accesses of a report are made by library code (the first
// frame outside the Go runtime/standard library lies under the tree under test).
func libraryRace(rep string) bool {
	goroot := runtime.GOROOT()
	var owners []string
	lines := strings.Split(rep, "\n")
	for i := 0; i < len(lines); i++ {
		if !accessRe.MatchString(lines[i]) {
			continue
		}
		owner := ""
		for j := i + 1; j < len(lines) && strings.TrimSpace(lines[j]) != ""; j++ {
			if m := fileRe.FindStringSubmatch(lines[j]); m != nil {
				if strings.HasPrefix(m[1], goroot) || strings.Contains(m[1], "/pkg/mod/") {
					continue
				}
				owner = m[1]
				break
			}
		}
		owners = append(owners, owner)
	}
	if len(owners) < 2 {
		return false
	}
	for _, o := range owners[:2] {
		if !strings.HasPrefix(o, repoDir+"/") {
			return false
		}
	}
	return true
}
