// seq: the sequential-enumeration binary (plain build of the working tree).
package main

import (
	"verif/seq"

	_ "verif/checks/s08"
	_ "verif/checks/s09"
	_ "verif/checks/s11"
	_ "verif/checks/s13"
	_ "verif/checks/s14"
	_ "verif/checks/s17"
	_ "verif/checks/s18"
)

func main() { seq.Main() }
