//go:build vsreal

// mcreal: the scenario bodies bound to real goroutines, built with -race and without
// the instrumentation overlay (free-running data-race pass).
package main

import (
	"verif/mc"

	_ "verif/checks/c01"
	_ "verif/checks/c02"
	_ "verif/checks/c03"
	_ "verif/checks/c04"
	_ "verif/checks/c05"
	_ "verif/checks/c06"
	_ "verif/checks/c07"
	_ "verif/checks/c10"
	_ "verif/checks/c11"
	_ "verif/checks/c12"
	_ "verif/checks/c13"
	_ "verif/checks/c15"
	_ "verif/checks/c16"
	_ "verif/checks/c18"
	_ "verif/checks/c19"
)

func main() { mc.RaceMain() }
