// Package fakenet provides net.Listener / net.Conn views of the model transport.
package fakenet

import (
	"errors"
	"net"
	"time"

	"verif/engine/vs"
	"verif/harness/tr"
)

type Addr struct{}

func (Addr) Network() string { return "model" }
func (Addr) String() string  { return "model" }

// Conn makes a model transport end look like a net.Conn.
type Conn struct{ *tr.End }

func (Conn) LocalAddr() net.Addr                { return Addr{} }
func (Conn) RemoteAddr() net.Addr               { return Addr{} }
func (Conn) SetDeadline(t time.Time) error      { return nil }
func (Conn) SetReadDeadline(t time.Time) error  { return nil }
func (Conn) SetWriteDeadline(t time.Time) error { return nil }

// ErrAccept is returned by a listener armed with FailNext.
var ErrAccept = errors.New("fakenet: accept failed")

// Listener is a scriptable base listener.
type Listener struct {
	mon      vs.Monitor
	queue    []net.Conn
	closed   bool
	failNext bool
	Closes   int
	Accepted int
}

func (l *Listener) Accept() (c net.Conn, err error) {
	l.mon.Do("base.Accept", func() bool { return len(l.queue) > 0 || l.closed || l.failNext }, func() {
		switch {
		case l.closed:
			err = net.ErrClosed
		case l.failNext:
			l.failNext = false
			err = ErrAccept
		default:
			c, l.queue = l.queue[0], l.queue[1:]
			l.Accepted++
		}
	})
	return c, err
}

func (l *Listener) Close() error {
	var backlog []net.Conn
	l.mon.Do("base.Close", nil, func() { l.closed = true; l.Closes++; backlog, l.queue = l.queue, nil })
	for _, c := range backlog {
		c.(Conn).End.EnvClose() // the OS resets connections still in the accept backlog
	}
	return nil
}

func (l *Listener) Addr() net.Addr { return Addr{} }

// Push queues an incoming connection.
func (l *Listener) Push(c net.Conn) {
	l.mon.Do("base.push", nil, func() { l.queue = append(l.queue, c) })
}

// Fail makes the next Accept return ErrAccept.
func (l *Listener) Fail() { l.mon.Do("base.fail", nil, func() { l.failNext = true }) }
