// Package enc is the byte-slice drpc.Encoding used by the harnesses, so that
// protobuf is not part of the explored path. Unmarshal copies the lent buffer.
package enc

import (
	"encoding/binary"
	"errors"
	"fmt"
	"hash/crc32"

	"storj.io/drpc"

	"verif/engine/sched"
	"verif/engine/vs"
)

// Bytes is the encoding; messages are *[]byte.
type Bytes struct{}

var _ drpc.Encoding = Bytes{}

func (Bytes) Marshal(msg drpc.Message) ([]byte, error) {
	p, ok := msg.(*[]byte)
	if !ok {
		return nil, errors.New("enc: message is not *[]byte")
	}
	return *p, nil
}

func (Bytes) Unmarshal(buf []byte, msg drpc.Message) error {
	p, ok := msg.(*[]byte)
	if !ok {
		return errors.New("enc: message is not *[]byte")
	}
	// decoding takes time: the consumer of a lent buffer can be preempted here,
	// between obtaining the buffer and copying out of it
	sched.Point("Unmarshal", nil)
	*p = append([]byte(nil), buf...)
	return nil
}

// FailUnmarshal fails every Unmarshal (for "undecodable request" scenarios).
type FailUnmarshal struct{ Bytes }

var ErrUndecodable = errors.New("enc: undecodable")

func (FailUnmarshal) Unmarshal(buf []byte, msg drpc.Message) error { return ErrUndecodable }

// Payload builds a self-describing message: tag, direction, seq, length, filler, crc.
// total is the exact encoded size wanted (>= MinPayload); a total of 0 yields the
// empty message (which carries no self-description).
const MinPayload = 11

func Payload(tag byte, dir byte, seq byte, total int) []byte {
	if total == 0 {
		return []byte{}
	}
	if total < MinPayload {
		total = MinPayload
	}
	b := make([]byte, total)
	b[0], b[1], b[2] = tag, dir, seq
	binary.BigEndian.PutUint32(b[3:7], uint32(total))
	for i := 7; i < total-4; i++ {
		b[i] = byte(i*7) ^ tag ^ seq
	}
	binary.BigEndian.PutUint32(b[total-4:], crc32.ChecksumIEEE(b[:total-4]))
	return b
}

// Verify checks a payload produced by Payload and returns its fields.
func Verify(b []byte) (tag, dir, seq byte, err error) {
	if len(b) == 0 {
		return 0, 0, 0, nil
	}
	if len(b) < MinPayload {
		return 0, 0, 0, fmt.Errorf("payload too short (%d bytes): %x", len(b), b)
	}
	if n := binary.BigEndian.Uint32(b[3:7]); int(n) != len(b) {
		return 0, 0, 0, fmt.Errorf("payload length field %d but got %d bytes (truncated or merged)", n, len(b))
	}
	if crc32.ChecksumIEEE(b[:len(b)-4]) != binary.BigEndian.Uint32(b[len(b)-4:]) {
		return 0, 0, 0, fmt.Errorf("payload checksum mismatch (altered): %x", b)
	}
	return b[0], b[1], b[2], nil
}

// Gate is a harness-controlled latch: user code parks at Wait until Open.
type Gate struct {
	mon     vs.Monitor
	open    bool
	Waiting int // callers that have arrived at the gate (open or not)
}

// Wait parks the caller until the gate is open.
func (g *Gate) Wait() {
	g.mon.Do("gate.arrive", nil, func() { g.Waiting++ })
	g.mon.Do("gate.wait", func() bool { return g.open }, func() {})
}

// Open releases current and future waiters.
func (g *Gate) Open() { g.mon.Do("gate.open", nil, func() { g.open = true }) }

// Slow is Bytes whose Marshal parks at a gate first: user-supplied encoders may be
// arbitrarily slow, which lets a scenario hold a call inside its marshalling step.
type Slow struct {
	Bytes
	G *Gate
}

func (s Slow) Marshal(msg drpc.Message) ([]byte, error) {
	s.G.Wait()
	return s.Bytes.Marshal(msg)
}

// SlowU is Bytes whose Unmarshal announces itself (Arrived opens) and then parks at a gate while it is
// still looking at the bytes it was lent: user-supplied decoders may be arbitrarily slow.
type SlowU struct {
	Bytes
	G, Arrived *Gate
}

func (s SlowU) Unmarshal(buf []byte, msg drpc.Message) error {
	s.Arrived.Open()
	s.G.Wait()
	return s.Bytes.Unmarshal(buf, msg)
}
