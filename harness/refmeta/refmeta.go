// Package refmeta is an independent reference for the metadata encoding: the
// protobuf wire encoding of `message M { map<string,string> m = 1; }`, i.e. a
// repeated length-delimited field 1 whose entries are messages with string
// field 1 (key) and string field 2 (value). It imports nothing from drpc.
package refmeta

import (
	"errors"
	"sort"
)

func putUvarint(b []byte, v uint64) []byte {
	for v >= 0x80 {
		b = append(b, byte(v)|0x80)
		v >>= 7
	}
	return append(b, byte(v))
}

func uvarint(b []byte) (uint64, int, error) {
	var v uint64
	for i := 0; i < 10; i++ {
		if i >= len(b) {
			return 0, 0, errors.New("truncated varint")
		}
		c := b[i]
		v |= uint64(c&0x7f) << (7 * uint(i))
		if c&0x80 == 0 {
			return v, i + 1, nil
		}
	}
	return 0, 0, errors.New("varint too long")
}

// Encode emits the entries in sorted key order.
func Encode(m map[string]string) []byte {
	keys := make([]string, 0, len(m))
	for k := range m {
		keys = append(keys, k)
	}
	sort.Strings(keys)
	var out []byte
	for _, k := range keys {
		v := m[k]
		var ent []byte
		ent = append(ent, 0x0a)
		ent = putUvarint(ent, uint64(len(k)))
		ent = append(ent, k...)
		ent = append(ent, 0x12)
		ent = putUvarint(ent, uint64(len(v)))
		ent = append(ent, v...)
		out = append(out, 0x0a)
		out = putUvarint(out, uint64(len(ent)))
		out = append(out, ent...)
	}
	return out
}

type field struct {
	num  uint64
	wt   uint64
	data []byte // for wire type 2
}

func fields(b []byte) ([]field, error) {
	var out []field
	for len(b) > 0 {
		tag, n, err := uvarint(b)
		if err != nil {
			return nil, err
		}
		b = b[n:]
		f := field{num: tag >> 3, wt: tag & 7}
		if f.num == 0 {
			return nil, errors.New("field number 0")
		}
		switch f.wt {
		case 0:
			_, n, err := uvarint(b)
			if err != nil {
				return nil, err
			}
			b = b[n:]
		case 1:
			if len(b) < 8 {
				return nil, errors.New("truncated fixed64")
			}
			b = b[8:]
		case 2:
			l, n, err := uvarint(b)
			if err != nil {
				return nil, err
			}
			b = b[n:]
			if l > uint64(len(b)) {
				return nil, errors.New("truncated bytes")
			}
			f.data = b[:l]
			b = b[l:]
		case 5:
			if len(b) < 4 {
				return nil, errors.New("truncated fixed32")
			}
			b = b[4:]
		default:
			return nil, errors.New("unsupported wire type")
		}
		out = append(out, f)
	}
	return out, nil
}

// Decode is a general protobuf decoder for the message (unknown fields skipped,
// missing key/value default to "", last value wins).
func Decode(b []byte) (map[string]string, error) {
	top, err := fields(b)
	if err != nil {
		return nil, err
	}
	var out map[string]string
	for _, f := range top {
		if f.num != 1 {
			continue
		}
		if f.wt != 2 {
			return nil, errors.New("map field with wrong wire type")
		}
		inner, err := fields(f.data)
		if err != nil {
			return nil, err
		}
		var k, v string
		for _, g := range inner {
			if g.wt != 2 {
				if g.num == 1 || g.num == 2 {
					return nil, errors.New("entry field with wrong wire type")
				}
				continue
			}
			switch g.num {
			case 1:
				k = string(g.data)
			case 2:
				v = string(g.data)
			}
		}
		if out == nil {
			out = map[string]string{}
		}
		out[k] = v
	}
	return out, nil
}
