// Package tr is the model transport: an in-memory duplex pipe whose blocking is
// owned by the scheduler (through vs.Monitor), with configurable capacity, read
// chunking, stalls and an injectable fault, and which logs everything written.
package tr

import (
	"errors"
	"io"

	"verif/engine/vs"
)

// FaultKind enumerates the injectable faults.
type FaultKind int

const (
	NoFault    FaultKind = iota
	ErrReturn            // the call returns (0, ErrInjected); transport dead afterwards
	ErrAfter             // J bytes are transferred, then the call returns (J, ErrInjected)
	PeerClose            // the peer end is closed by the environment just before the call
	LocalClose           // this end is closed by the environment just before the call
	ErrOnce              // the call returns (0, ErrInjected) once; the transport stays usable (writes only)
)

func (k FaultKind) String() string {
	return [...]string{"none", "err", "err-after", "peer-close", "local-close", "err-once"}[k]
}

// Fault arms one fault at the K-th (0-based) Read or Write call of an end.
type Fault struct {
	Kind  FaultKind
	Write bool // false: read calls are counted
	K     int
	J     int // bytes transferred before the error (ErrAfter)
}

// ErrInjected is returned by faulted calls.
var ErrInjected = errors.New("tr: injected transport failure")

// Options configures one direction pair.
type Options struct {
	// Cap is the buffer capacity of each direction: 0 = rendezvous (a Write
	// returns only when the peer has consumed it, like net.Pipe), <0 = unbounded.
	Cap int
	// ReadMax limits the bytes returned by one Read (0 = everything available).
	ReadMax int
	// TwoStep gives every Write a begin and an end scheduling point, so that
	// overlapping calls are observable.
	TwoStep bool
	// SlowClose gives Close a second scheduling point before it returns: the end is already closed
	// (pending I/O is released) while the Close call is still in progress.
	SlowClose bool
	// EOFWithData: a Read that drains the last bytes of a stream whose writer has closed returns
	// them together with io.EOF (as io.Reader allows and buffered/TLS-style transports do).
	EOFWithData bool
}

type half struct {
	buf     []byte
	wclosed bool // the writing end is gone: reader gets EOF after draining
	rclosed bool // the reading end is gone: writer fails
	taken   int  // total bytes consumed by the reader
	put     int  // total bytes deposited by the writer
}

// Pipe is the shared state of both ends.
type Pipe struct {
	mon  vs.Monitor
	opts Options
	dead bool // a fault killed the connection
}

// End is one endpoint; it implements drpc.Transport (io.ReadWriteCloser).
type End struct {
	Name   string
	p      *Pipe
	rd, wr *half
	peer   *End

	closed    bool // closed by a Close call or by the environment
	Closes    int  // number of Close calls by the code under test
	fault     *Fault
	faultDone bool
	Faulted   bool
	Transient bool // an ErrOnce fault struck (the transport is still usable)
	stalled   bool
	// StallAt makes the StallAt-th (0-based) and later Writes park until Release (<0: never).
	StallAt int

	reads, writes int
	inRead        int
	inWrite       int
	// ConcurrentReads/Writes count calls that began while another was in flight.
	ConcurrentReads, ConcurrentWrites int
	// Log is every payload passed to Write, in begin order (including bytes of failed writes).
	Log [][]byte
	// Delivered counts the bytes of Log entries actually handed to the pipe.
	WriteRet []int
	// AfterClose counts Write calls that began after Close was called on this end.
	OpsAfterClose int
}

// New creates a connected pair of ends named a and b.
func New(a, b string, opts Options) (*End, *End) {
	p := &Pipe{opts: opts}
	ab, ba := &half{}, &half{}
	x := &End{Name: a, p: p, rd: ba, wr: ab, StallAt: -1}
	y := &End{Name: b, p: p, rd: ab, wr: ba, StallAt: -1}
	x.peer, y.peer = y, x
	return x, y
}

// Arm installs a fault on this end (before the scenario runs).
func (e *End) Arm(f Fault) { e.fault = &f }

// Stall makes Writes on this end park (before depositing anything) until Release.
func (e *End) Stall() { e.p.mon.Do(e.Name+".stall", nil, func() { e.stalled = true }) }

// Release undoes Stall.
func (e *End) Release() {
	e.p.mon.Do(e.Name+".release", nil, func() { e.stalled = false; e.StallAt = -1 })
}

// StallInit sets the stall flag without a scheduling point (scenario setup).
func (e *End) StallInit() { e.stalled = true }

func (e *End) envClose() {
	e.closed = true
	e.wr.wclosed = true
	e.rd.rclosed = true
}

func (e *End) kill() {
	e.p.dead = true
}

// takeFault reports the armed fault if this call is the one it targets.
func (e *End) takeFault(write bool, idx int) *Fault {
	f := e.fault
	if f == nil || e.faultDone || f.Write != write || f.K != idx {
		return nil
	}
	e.faultDone = true
	e.Faulted = true
	return f
}

func (e *End) Read(p []byte) (n int, err error) {
	var f *Fault
	e.p.mon.Do(e.Name+".Read", func() bool {
		if e.fault != nil && !e.faultDone && !e.fault.Write && e.fault.K == e.reads && e.fault.Kind != ErrAfter {
			return true // the fault strikes without waiting for data
		}
		return len(e.rd.buf) > 0 || e.rd.wclosed || e.closed || e.p.dead || len(p) == 0
	}, func() {
		idx := e.reads
		e.reads++
		if e.inRead > 0 {
			e.ConcurrentReads++
		}
		if e.closed {
			e.OpsAfterClose++
		}
		if f = e.takeFault(false, idx); f != nil {
			switch f.Kind {
			case ErrReturn:
				e.kill()
				n, err = 0, ErrInjected
				return
			case PeerClose:
				e.peer.envClose()
			case LocalClose:
				e.envClose()
			}
		}
		switch {
		case e.closed:
			n, err = 0, io.ErrClosedPipe
		case e.p.dead:
			n, err = 0, ErrInjected
		case len(e.rd.buf) > 0:
			n = len(e.rd.buf)
			if n > len(p) {
				n = len(p)
			}
			if m := e.p.opts.ReadMax; m > 0 && n > m {
				n = m
			}
			if f != nil && f.Kind == ErrAfter {
				if n > f.J {
					n = f.J
				}
				err = ErrInjected
				e.kill()
			}
			copy(p, e.rd.buf[:n])
			e.rd.buf = e.rd.buf[n:]
			e.rd.taken += n
			if e.p.opts.EOFWithData && err == nil && len(e.rd.buf) == 0 && e.rd.wclosed {
				err = io.EOF
			}
		case e.rd.wclosed:
			n, err = 0, io.EOF
		}
	})
	return n, err
}

func (e *End) Write(p []byte) (n int, err error) {
	data := append([]byte(nil), p...)
	deposited := false
	target := 0
	e.p.mon.Do(e.Name+".Write", func() bool {
		if e.closed || e.p.dead || e.wr.rclosed {
			return true
		}
		if e.stalled || (e.StallAt >= 0 && e.writes >= e.StallAt) {
			return false
		}
		c := e.p.opts.Cap
		if c > 0 {
			return len(e.wr.buf) < c || len(data) == 0
		}
		if c == 0 {
			return len(e.wr.buf) == 0 // one rendezvous write at a time
		}
		return true
	}, func() {
		idx := e.writes
		e.writes++
		if e.inWrite > 0 {
			e.ConcurrentWrites++
		}
		if e.closed {
			e.OpsAfterClose++
		}
		e.inWrite++
		e.Log = append(e.Log, data)
		e.WriteRet = append(e.WriteRet, 0)
		f := e.takeFault(true, idx)
		if f != nil {
			switch f.Kind {
			case ErrReturn:
				e.kill()
				err = ErrInjected
				return
			case ErrOnce:
				if !e.closed && !e.p.dead && !e.wr.rclosed {
					e.Transient = true
					err = ErrInjected
					return
				}
			case PeerClose:
				e.peer.envClose()
			case LocalClose:
				e.envClose()
			}
		}
		switch {
		case e.closed:
			err = io.ErrClosedPipe
		case e.p.dead:
			err = ErrInjected
		case e.wr.rclosed:
			err = io.ErrClosedPipe
		default:
			put := data
			if f != nil && f.Kind == ErrAfter {
				if f.J < len(put) {
					put = put[:f.J]
				}
				err = ErrInjected
				e.kill()
			}
			// with a bounded capacity a large write is deposited in full; the
			// capacity only delays the *next* write (keeps the model one-step)
			e.wr.buf = append(e.wr.buf, put...)
			e.wr.put += len(put)
			n = len(put)
			e.WriteRet[len(e.WriteRet)-1] = n
			deposited = true
			target = e.wr.put
		}
	})
	two := e.p.opts.TwoStep || e.p.opts.Cap == 0
	if !two {
		e.inWrite--
		return n, err
	}
	e.p.mon.Do(e.Name+".Write.ret", func() bool {
		if !deposited || err != nil || e.p.opts.Cap != 0 {
			return true
		}
		return e.wr.taken >= target || e.closed || e.p.dead || e.wr.rclosed
	}, func() {
		e.inWrite--
		if deposited && err == nil && e.p.opts.Cap == 0 && e.wr.taken < target {
			// interrupted before the peer consumed everything
			n -= target - e.wr.taken
			if n < 0 {
				n = 0
			}
			if e.closed || e.wr.rclosed {
				err = io.ErrClosedPipe
			} else {
				err = ErrInjected
			}
		}
	})
	return n, err
}

func (e *End) Close() error {
	e.p.mon.Do(e.Name+".Close", nil, func() {
		e.Closes++
		e.envClose()
	})
	if e.p.opts.SlowClose {
		e.p.mon.Do(e.Name+".Close.ret", nil, func() {})
	}
	return nil
}

// IsClosed reports whether the end was closed (by a call or the environment).
func (e *End) IsClosed() bool { return e.closed }

// Dead reports whether an injected fault killed the connection.
func (e *End) Dead() bool { return e.p.dead }

// Written returns the concatenation of everything actually handed to the pipe by this end.
func (e *End) Written() []byte {
	var out []byte
	for i, b := range e.Log {
		out = append(out, b[:e.WriteRet[i]]...)
	}
	return out
}

// Pending returns the bytes written by the peer that this end has not read yet.
func (e *End) Pending() []byte { return e.rd.buf }

// Inject appends raw bytes as if the peer had written them (scripted peers).
func (e *End) Inject(b []byte) {
	e.p.mon.Do(e.Name+".inject", nil, func() {
		e.rd.buf = append(e.rd.buf, b...)
		e.rd.put += len(b)
	})
}

// InjectInit is Inject without a scheduling point (scenario setup).
func (e *End) InjectInit(b []byte) {
	e.rd.buf = append(e.rd.buf, b...)
	e.rd.put += len(b)
}

// Reads and Writes report the number of calls begun so far.
func (e *End) Reads() int  { return e.reads }
func (e *End) Writes() int { return e.writes }

// EnvClose closes this end on behalf of the environment (not counted in Closes).
func (e *End) EnvClose() { e.p.mon.Do(e.Name+".envclose", nil, func() { e.envClose() }) }

// WaitDelivered parks the caller until this end has read at least n bytes written by the peer
// (an application "thinking" until data has arrived).
func (e *End) WaitDelivered(n int) {
	e.p.mon.Do(e.Name+".wait-delivered", func() bool {
		return e.rd.taken >= n || e.closed || e.p.dead || e.rd.wclosed
	}, func() {})
}
