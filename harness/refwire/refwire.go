// Package refwire is an independent reference implementation of the drpc wire
// format, written from the wire description and importing nothing from drpc:
//
//	frame   = control stream message length payload
//	control = one byte: bit 7 control flag, bits 6..1 kind (6 bits), bit 0 done flag
//	stream, message, length = base-128 little-endian integers, 7 bits per byte,
//	          high bit = continuation, at most 10 bytes; bits beyond 64 are dropped
//	payload = length bytes
//
// A packet is the concatenation of the payloads of the frames of one
// (stream, message) id up to the frame with the done flag.
package refwire

import (
	"errors"
	"fmt"
)

type ID struct{ Stream, Message uint64 }

func (a ID) Less(b ID) bool {
	return a.Stream < b.Stream || (a.Stream == b.Stream && a.Message < b.Message)
}

type Frame struct {
	Data    []byte
	ID      ID
	Kind    uint8
	Done    bool
	Control bool
}

func (f Frame) String() string {
	return fmt.Sprintf("{k=%d s=%d m=%d done=%v ctl=%v len=%d}", f.Kind, f.ID.Stream, f.ID.Message, f.Done, f.Control, len(f.Data))
}

type Packet struct {
	Data    []byte
	ID      ID
	Kind    uint8
	Control bool
}

// Result of parsing at the front of a byte string.
type Result int

const (
	OK       Result = iota // a frame and the remainder
	NeedMore               // a proper prefix of some frame
	Bad                    // malformed
)

var ErrVarint = errors.New("refwire: varint too long")

// Uvarint decodes one integer: n bytes consumed, NeedMore if the string ends
// inside the integer, Bad after ten continuation bytes.
func Uvarint(b []byte) (v uint64, n int, r Result) {
	for i := 0; i < 10; i++ {
		if i >= len(b) {
			return 0, 0, NeedMore
		}
		c := b[i]
		v |= uint64(c&0x7f) << (7 * uint(i)) // shifts of 63 keep one bit, the rest is dropped
		if c&0x80 == 0 {
			return v, i + 1, OK
		}
	}
	return 0, 0, Bad
}

// PutUvarint appends the canonical (shortest) encoding.
func PutUvarint(b []byte, v uint64) []byte {
	for v >= 0x80 {
		b = append(b, byte(v)|0x80)
		v >>= 7
	}
	return append(b, byte(v))
}

// Parse decodes one frame from the front of b.
func Parse(b []byte) (f Frame, rest []byte, r Result) {
	// the shortest frame is control + three one-byte integers
	if len(b) < 4 {
		return Frame{}, b, NeedMore
	}
	c := b[0]
	f.Done = c&1 != 0
	f.Control = c&0x80 != 0
	f.Kind = (c >> 1) & 0x3f
	p := b[1:]
	var vals [3]uint64
	for i := range vals {
		v, n, res := Uvarint(p)
		if res != OK {
			return Frame{}, b, res
		}
		vals[i] = v
		p = p[n:]
	}
	f.ID = ID{vals[0], vals[1]}
	if vals[2] > uint64(len(p)) {
		return Frame{}, b, NeedMore
	}
	f.Data = p[:vals[2]]
	return f, p[vals[2]:], OK
}

// Append encodes a frame.
func Append(b []byte, f Frame) []byte {
	c := f.Kind << 1
	if f.Done {
		c |= 1
	}
	if f.Control {
		c |= 0x80
	}
	b = append(b, c)
	b = PutUvarint(b, f.ID.Stream)
	b = PutUvarint(b, f.ID.Message)
	b = PutUvarint(b, uint64(len(f.Data)))
	return append(b, f.Data...)
}

// ParseAll splits a byte string into frames; rest is what is left when the
// string does not end on a frame boundary.
func ParseAll(b []byte) (fs []Frame, rest []byte, r Result) {
	for len(b) > 0 {
		f, p, res := Parse(b)
		if res != OK {
			return fs, b, res
		}
		fs = append(fs, f)
		b = p
	}
	return fs, nil, OK
}

// ErrClass classifies reassembly failures.
type ErrClass string

const (
	ErrNone      ErrClass = ""
	ErrMalformed ErrClass = "malformed"
	ErrMonotonic ErrClass = "id-monotonicity"
	ErrKind      ErrClass = "kind-change"
	ErrTooBig    ErrClass = "too-big"
)

// Reassembler is the reference packet reassembly: frames of one id are
// concatenated; a higher id discards an unfinished packet; ids never go
// backwards (a finished id may not be reused); the kind is constant within a
// packet; a control bit on any frame marks the packet; packets larger than max
// are rejected.
type Reassembler struct {
	Max     int
	low     ID // smallest acceptable id
	cur     Packet
	started bool
}

func NewReassembler(max int) *Reassembler {
	return &Reassembler{Max: max, low: ID{1, 1}}
}

// Feed consumes one frame; it returns a finished packet (done=true) or an error class.
func (r *Reassembler) Feed(f Frame) (pkt Packet, done bool, e ErrClass) {
	if f.ID.Less(r.low) {
		return Packet{}, false, ErrMonotonic
	}
	if !r.started || f.ID != r.cur.ID {
		r.low = f.ID
		r.cur = Packet{ID: f.ID, Kind: f.Kind, Control: f.Control}
		r.started = true
	} else if f.Kind != r.cur.Kind {
		return Packet{}, false, ErrKind
	}
	r.cur.Control = r.cur.Control || f.Control
	r.cur.Data = append(r.cur.Data, f.Data...)
	if len(r.cur.Data) > r.Max {
		return Packet{}, false, ErrTooBig
	}
	if f.Done {
		pkt = r.cur
		r.low = ID{f.ID.Stream, f.ID.Message + 1}
		r.cur = Packet{}
		r.started = false
		return pkt, true, ErrNone
	}
	return Packet{}, false, ErrNone
}
