// Package wl is the two-endpoint harness: a real drpcconn.Conn talking to a real
// drpcserver.Server (ServeOne) over the model transport, plus the small toolbox
// (handler programs, logs, census) shared by the conn-level checks.
package wl

import (
	"context"
	"fmt"
	"sort"
	"strings"
	"time"

	"storj.io/drpc"
	"storj.io/drpc/drpcconn"
	"storj.io/drpc/drpcmanager"
	"storj.io/drpc/drpcserver"
	"storj.io/drpc/drpcstream"
	"storj.io/drpc/drpcwire"

	"verif/engine/sched"
	"verif/engine/vs"
	"verif/harness/enc"
	"verif/harness/tr"
)

// Config selects the library options of both endpoints.
type Config struct {
	Soft        bool
	Pipe        tr.Options
	SplitSize   int
	WriterBuf   int
	ManualFlush bool
	MaxBuf      int // reader MaximumBufferSize (0 = default)
	// Inactivity arms the server manager's InactivityTimeout: a virtual timer that may fire at
	// any point while the server waits for the next invoke.
	Inactivity bool
	// Cold skips the warm start: the managers' goroutines start interleaved with the scenario.
	Cold bool
}

func (c Config) String() string {
	s := fmt.Sprintf("soft=%v cap=%d rmax=%d split=%d wbuf=%d mf=%v", c.Soft, c.Pipe.Cap, c.Pipe.ReadMax, c.SplitSize, c.WriterBuf, c.ManualFlush)
	if c.Inactivity {
		s += " inactivity-timeout"
	}
	if c.Cold {
		s += " cold-start"
	}
	if c.Pipe.EOFWithData {
		s += " eof-with-data"
	}
	return s
}

func (c Config) manager() drpcmanager.Options {
	return drpcmanager.Options{
		WriterBufferSize: c.WriterBuf,
		SoftCancel:       c.Soft,
		Reader:           drpcwire.ReaderOptions{MaximumBufferSize: c.MaxBuf},
		Stream:           drpcstream.Options{SplitSize: c.SplitSize, ManualFlush: c.ManualFlush},
	}
}

// HandlerFunc is the server side of a scenario.
type HandlerFunc func(env *Env, stream drpc.Stream, rpc string) error

// Env is one client/server pair.
type Env struct {
	Cfg     Config
	Cli     *tr.End
	Srv     *tr.End
	Conn    *drpcconn.Conn
	Server  *drpcserver.Server
	SCtx    context.Context
	SCancel context.CancelFunc

	// HandlersEntered / Returned are counted per rpc name.
	Entered  map[string]int
	Returned map[string]int
	Active   int
	// ServeDone is set when ServeOne returned; ServeErr is its result.
	ServeDone bool
	ServeErr  error
	// Fails collects oracle failures detected inline by scenario code.
	Fails []string
	// Facts is free-form scenario state for the Check function.
	Facts map[string]any
}

// Failf records an inline oracle failure.
func (env *Env) Failf(f string, a ...any) { env.Fails = append(env.Fails, fmt.Sprintf(f, a...)) }

type handler struct {
	env *Env
	f   HandlerFunc
}

func (h handler) HandleRPC(stream drpc.Stream, rpc string) error {
	env := h.env
	env.Entered[rpc]++
	env.Active++
	old := sched.Note("handler " + rpc)
	err := h.f(env, stream, rpc)
	sched.Note(old)
	env.Active--
	env.Returned[rpc]++
	return err
}

// Cancel runs a context cancel function as one scheduled step.
func Cancel(cancel context.CancelFunc) {
	sched.Point("ctx.cancel", nil)
	cancel()
	sched.HBWrite("ctx-cancel", 90, 0)
}

// NewEnv builds the pair inside a scenario body and registers it in the execution state.
func NewEnv(cfg Config, h HandlerFunc) *Env {
	env := &Env{Cfg: cfg, Entered: map[string]int{}, Returned: map[string]int{}, Facts: map[string]any{}}
	env.Cli, env.Srv = tr.New("cli", "srv", cfg.Pipe)
	sched.Cur().State()["env"] = env
	smo := cfg.manager()
	if cfg.Inactivity {
		smo.InactivityTimeout = time.Minute
	}
	env.Server = drpcserver.NewWithOptions(handler{env: env, f: h}, drpcserver.Options{Manager: smo})
	env.SCtx, env.SCancel = context.WithCancel(context.Background())
	vs.Go("serveone", func() {
		env.ServeErr = env.Server.ServeOne(env.SCtx, env.Srv)
		env.ServeDone = true
	})
	env.Conn = drpcconn.NewWithOptions(env.Cli, drpcconn.Options{Manager: cfg.manager()})
	if !cfg.Cold {
		// warm start: both managers' goroutines are started and parked (without branching) before
		// the scenario's own goroutines exist. The creation order is what the reference schedules
		// are built from, so this makes them "library goroutines first, then the application's in
		// creation order" (and the exact opposite when reversed): one preemption of an application
		// goroutine lets the whole library reaction to what it already wrote run before it resumes.
		sched.Setup(sched.Quiesce)
	}
	return env
}

// GetEnv returns the Env of a finished execution.
func GetEnv(e *sched.Exec) *Env {
	env, _ := e.State()["env"].(*Env)
	return env
}

// Teardown closes both endpoints (client first) and waits for quiescence. It is not part of
// what the conn-level properties quantify over (the facts are snapshotted before it), so the
// explorer is told not to branch any more; C12, where closing is the subject, explores its
// own close and uses TeardownExplored.
func (env *Env) Teardown() {
	sched.Freeze()
	env.TeardownExplored()
}

// TeardownExplored is Teardown with the explorer still branching.
func (env *Env) TeardownExplored() {
	_ = env.Conn.Close()
	Cancel(env.SCancel)
	sched.Quiesce()
}

// ConnClosed reports (at a scheduling point) whether the client connection reports closed.
func (env *Env) ConnClosed() bool { return vs.IsClosed(env.Conn.Closed()) }

// Echo is the standard unary handler body: reply "<rpc>:<request>".
func Echo(stream drpc.Stream, rpc string) error {
	var in []byte
	if err := stream.MsgRecv(&in, enc.Bytes{}); err != nil {
		return err
	}
	out := append([]byte(rpc+":"), in...)
	return stream.MsgSend(&out, enc.Bytes{})
}

// Probe issues a tagged unary echo and reports whether it came back intact.
func (env *Env) Probe(tag string) (ok bool, err error) {
	in, out := []byte("probe-"+tag), []byte(nil)
	err = env.Conn.Invoke(context.Background(), "/probe/"+tag, enc.Bytes{}, &in, &out)
	if err != nil {
		return false, err
	}
	want := "/probe/" + tag + ":probe-" + tag
	if string(out) != want {
		env.Failf("probe %s returned %q, want %q", tag, out, want)
		return false, nil
	}
	return true, nil
}

// IsLibrary reports whether a goroutine was spawned by drpc itself.
func IsLibrary(name string) bool {
	return strings.HasPrefix(name, "drpc")
}

// BlockedSummary renders a blocked list in a stable form for messages/signatures.
func BlockedSummary(bs []sched.BlockedG) string {
	var out []string
	for _, b := range bs {
		if b.Daemon {
			continue
		}
		s := b.Name + "@" + b.What
		if b.Note != "" {
			s += "(" + b.Note + ")"
		}
		out = append(out, s)
	}
	sort.Strings(out)
	return "[" + strings.Join(out, " ") + "]"
}

// AppBlocked returns the blocked non-library goroutines.
func AppBlocked(bs []sched.BlockedG) []sched.BlockedG {
	var out []sched.BlockedG
	for _, b := range bs {
		if b.Daemon || IsLibrary(b.Name) {
			continue
		}
		if b.Name == "serveone" && b.Note == "" {
			continue // idle server: waiting for the next invoke inside the library, not in a handler
		}
		out = append(out, b)
	}
	return out
}

// LibBlocked returns the blocked library goroutines.
func LibBlocked(bs []sched.BlockedG) []sched.BlockedG {
	var out []sched.BlockedG
	for _, b := range bs {
		if !b.Daemon && IsLibrary(b.Name) {
			out = append(out, b)
		}
	}
	return out
}

// Common prefix of every Check: panics and inline failures.
func Basic(e *sched.Exec) string {
	if len(e.Panics) > 0 {
		return "panic: " + e.Panics[0]
	}
	env := GetEnv(e)
	if env == nil {
		return "HARNESS env missing"
	}
	if len(env.Fails) > 0 {
		return "clause: " + env.Fails[0]
	}
	return ""
}
