// Package refstream is the reference model of the documented stream state
// machine (drpcstream/state.dot, the package and method documentation). It
// imports nothing from drpc. Where the documentation is silent a result class
// is "any error" rather than a specific one.
package refstream

import "fmt"

// Class is the class of a call's result.
type Class string

const (
	Nil      Class = "nil"
	EOF      Class = "io.EOF"
	AnyErr   Class = "error" // some non-nil error, unspecified
	Canceled Class = "context.Canceled"
	ExactE1  Class = "exact(e1)"    // the very value passed to Cancel
	ExactE2  Class = "exact(e2)"    // the very value passed to SendCancel
	Remote   Class = "remote-error" // text and code of the Error packet
	Closed   Class = "drpc.ClosedError"
	Proto    Class = "drpc.ProtocolError"
	Internal Class = "drpc.InternalError"
	True     Class = "true"
	False    Class = "false"
)

// Op is a symbol of the alphabet.
type Op string

const (
	Send       Op = "MsgSend"
	Recv       Op = "MsgRecv"
	CloseSend  Op = "CloseSend"
	Close      Op = "Close"
	SendError  Op = "SendError"
	Cancel     Op = "Cancel(e1)"
	SendCancel Op = "SendCancel(e2)"
	Flush      Op = "RawFlush"
	RawWrite   Op = "RawWrite"
	RawRecv    Op = "RawRecv"
	PMsg       Op = "pkt:Message"
	PCloseSend Op = "pkt:CloseSend"
	PClose     Op = "pkt:Close"
	PError     Op = "pkt:Error"
	PCancel    Op = "pkt:Cancel"
	PInvoke    Op = "pkt:Invoke"
	PUnkCtl    Op = "pkt:Unknown+control"
	PUnk       Op = "pkt:Unknown"
	PForeign   Op = "pkt:ForeignStream"
)

// Alphabet lists every symbol, simplest first.
var Alphabet = []Op{Send, Recv, CloseSend, Close, SendError, Cancel, SendCancel, Flush, RawWrite, RawRecv, PMsg, PCloseSend, PClose, PError, PCancel, PInvoke, PUnkCtl, PUnk, PForeign}

// IsPacket reports whether the symbol is a packet from the peer.
func (o Op) IsPacket() bool { return len(o) > 4 && o[:4] == "pkt:" }

// Frame kinds on the wire (from the wire description).
const (
	KInvoke    = 1
	KMessage   = 2
	KError     = 3
	KCancel    = 4
	KClose     = 5
	KCloseSend = 6
)

// Emit describes a frame the call must put on the wire.
type Emit struct {
	Kind    int
	Control bool
}

// Returned is the predicted completion of a call (the one just issued or an earlier parked one).
type Returned struct {
	ID    int // index of the call in the history
	Op    Op
	Class Class
	Data  bool // MsgRecv: a message was delivered
}

// Prediction is what the model expects to observe after one step.
type Prediction struct {
	Returned []Returned
	Blocked  bool // the call just issued stays in flight
	Emits    []Emit
}

// Model is the state machine. ManualFlush corks MsgSend output until a flush.
type Model struct {
	ManualFlush bool

	send, recv, term, cancel Class // "" = unset
	pbufErr                  Class // error receivers get once the buffer is closed
	slot                     bool  // an undelivered message (its HandlePacket is parked)
	slotCall                 int
	receivers                []int // parked MsgRecv calls, in arrival order
	corked                   int   // frames buffered by MsgSend under manual flush
	flushedOnce              bool
	calls                    int

	// WriterBusy is set by a driver while a call is parked inside the transport (it holds the
	// stream's write side): the stream cannot be finished meanwhile.
	WriterBusy bool
}

// Terminated / Finished are the observable flags.
func (m *Model) Terminated() bool { return m.term != "" }

// Finished holds when the stream is terminated and no operation is in flight.
func (m *Model) Finished() bool { return m.term != "" && len(m.receivers) == 0 && !m.WriterBusy }

// InFlight is the number of parked calls (receivers and an undelivered packet).
func (m *Model) InFlight() int {
	n := len(m.receivers)
	if m.slot {
		n++
	}
	return n
}

// SendClass is the result class a send reports in the current state ("" = it proceeds).
func (m *Model) SendClass() Class {
	if m.send == "" {
		return ""
	}
	return m.sendErr()
}

// CancelClass is the class of the cancel signal ("" = unset).
func (m *Model) CancelClass() Class { return errClass(m.cancel) }

// Enabled applies the calling contract: one packet handler at a time.
func (m *Model) Enabled(op Op) bool {
	if op.IsPacket() && m.slot {
		return false
	}
	if (op == Recv || op == RawRecv) && len(m.receivers) >= 2 {
		return false // keep the number of parked receivers small
	}
	return true
}

// Key is a canonical rendering of the state (for breadth-first search).
func (m *Model) Key() string {
	return fmt.Sprintf("s=%s r=%s t=%s c=%s pb=%s slot=%v rx=%d cork=%d fl=%v", m.send, m.recv, m.term, m.cancel, m.pbufErr, m.slot, len(m.receivers), m.corked, m.flushedOnce)
}

// Clone copies the model.
func (m *Model) Clone() *Model {
	c := *m
	c.receivers = append([]int(nil), m.receivers...)
	return &c
}

func set(sig *Class, v Class) {
	if *sig == "" {
		*sig = v
	}
}

// terminate: the stream stops; blocked receivers and an undelivered packet are released.
func (m *Model) terminate(cause Class, p *Prediction) {
	set(&m.send, cause)
	set(&m.recv, cause)
	set(&m.term, cause)
	m.closeBuf(cause, p)
}

func (m *Model) closeBuf(err Class, p *Prediction) {
	if m.pbufErr != "" {
		return
	}
	m.pbufErr = err
	if m.slot { // the message is dropped, its handler call returns
		m.slot = false
		p.Returned = append(p.Returned, Returned{ID: m.slotCall, Op: PMsg, Class: Nil})
	}
	for _, id := range m.receivers {
		p.Returned = append(p.Returned, Returned{ID: id, Op: Recv, Class: errClass(err)})
	}
	m.receivers = nil
}

// sendErr is what a send reports once the send side is closed.
func (m *Model) sendErr() Class {
	switch m.send {
	case "send-closed", "term-closed", "term-error", "both-closed":
		return AnyErr
	}
	return m.send
}

func errClass(c Class) Class {
	switch c {
	case "send-closed", "term-closed", "term-error", "both-closed":
		return AnyErr
	}
	return c
}

// flush models RawFlush / the flush done by a receive.
func (m *Model) flush(p *Prediction) Class {
	if m.corked == 0 {
		return Nil
	}
	switch {
	case m.cancel != "":
		return errClass(m.cancel)
	case m.send != "":
		return m.sendErr()
	case m.term != "":
		return errClass(m.term)
	}
	for i := 0; i < m.corked; i++ {
		p.Emits = append(p.Emits, Emit{Kind: KMessage})
	}
	m.corked = 0
	return Nil
}

// Step applies one symbol.
func (m *Model) Step(op Op) Prediction {
	var p Prediction
	id := m.calls
	m.calls++
	ret := func(c Class) { p.Returned = append(p.Returned, Returned{ID: id, Op: op, Class: c}) }
	switch op {
	case Send:
		m.flushedOnce = true
		if m.send != "" {
			ret(m.sendErr())
			break
		}
		if m.ManualFlush {
			m.corked++
		} else {
			// the flush after the message also carries whatever an earlier raw write left buffered
			for i := 0; i < m.corked; i++ {
				p.Emits = append(p.Emits, Emit{Kind: KMessage})
			}
			m.corked = 0
			p.Emits = append(p.Emits, Emit{Kind: KMessage})
		}
		ret(Nil)
	case RawWrite:
		// a raw write never flushes by itself
		if m.send != "" {
			ret(m.sendErr())
			break
		}
		m.corked++
		ret(Nil)
	case Flush:
		ret(m.flush(&p))
	case Recv, RawRecv:
		if !m.flushedOnce {
			m.flushedOnce = true
			if c := m.flush(&p); c != Nil {
				ret(c)
				break
			}
		}
		if m.ManualFlush && m.corked > 0 {
			if c := m.flush(&p); c != Nil {
				ret(c)
				break
			}
		}
		switch {
		case m.slot && len(m.receivers) == 0:
			m.slot = false
			p.Returned = append(p.Returned, Returned{ID: id, Op: op, Class: Nil, Data: true})
			p.Returned = append(p.Returned, Returned{ID: m.slotCall, Op: PMsg, Class: Nil})
		case m.pbufErr != "":
			ret(errClass(m.pbufErr))
		default:
			m.receivers = append(m.receivers, id)
			p.Blocked = true
		}
	case CloseSend:
		if m.send != "" || m.term != "" {
			ret(Nil)
			break
		}
		m.send = "send-closed"
		if m.recv != "" {
			m.terminate("both-closed", &p)
		}
		m.emitTerminal(KCloseSend, false, &p)
		ret(Nil)
	case Close:
		if m.term != "" {
			ret(Nil)
			break
		}
		m.terminate("term-closed", &p)
		m.emitTerminal(KClose, false, &p)
		ret(Nil)
	case SendError:
		if m.term != "" {
			ret(Nil)
			break
		}
		set(&m.send, EOF)
		m.terminate("term-error", &p)
		m.emitTerminal(KError, false, &p)
		ret(Nil)
	case Cancel:
		if m.Finished() {
			ret(True)
			break
		}
		set(&m.cancel, ExactE1)
		set(&m.send, EOF)
		m.terminate(ExactE1, &p)
		ret(False)
	case SendCancel:
		if m.term != "" {
			ret(False)
			break
		}
		set(&m.send, EOF)
		m.terminate(ExactE2, &p)
		m.emitTerminal(KCancel, true, &p)
		ret(False)
	case PForeign, PUnkCtl:
		ret(Nil)
	case PMsg:
		if m.term != "" || m.pbufErr != "" {
			ret(Nil) // dropped
			break
		}
		if len(m.receivers) > 0 {
			rx := m.receivers[0]
			m.receivers = m.receivers[1:]
			p.Returned = append(p.Returned, Returned{ID: rx, Op: Recv, Class: Nil, Data: true})
			ret(Nil)
			break
		}
		m.slot, m.slotCall = true, id
		p.Blocked = true
	case PCloseSend:
		if m.term != "" {
			ret(Nil)
			break
		}
		set(&m.recv, EOF)
		m.closeBuf(EOF, &p)
		if m.send != "" {
			m.terminate("both-closed", &p)
		}
		ret(Nil)
	case PClose:
		if m.term != "" {
			ret(Nil)
			break
		}
		set(&m.recv, EOF)
		m.closeBuf(EOF, &p)
		m.terminate(Closed, &p)
		ret(Nil)
	case PError:
		if m.term != "" {
			ret(Nil)
			break
		}
		set(&m.send, EOF)
		m.terminate(Remote, &p)
		ret(Nil)
	case PCancel:
		if m.term != "" {
			ret(Nil)
			break
		}
		set(&m.cancel, Canceled)
		set(&m.send, EOF)
		m.terminate(Canceled, &p)
		ret(Nil)
	case PInvoke:
		if m.term != "" {
			ret(Nil)
			break
		}
		m.terminate(Proto, &p)
		ret(Proto)
	case PUnk:
		if m.term != "" {
			ret(Nil)
			break
		}
		m.terminate(Internal, &p)
		ret(Internal)
	}
	return p
}

// emitTerminal: a terminal packet is written and flushed on its own; corked message
// frames (manual flush) go out with it, in front of it.
func (m *Model) emitTerminal(kind int, control bool, p *Prediction) {
	for i := 0; i < m.corked; i++ {
		p.Emits = append(p.Emits, Emit{Kind: KMessage})
	}
	m.corked = 0
	p.Emits = append(p.Emits, Emit{Kind: kind, Control: control})
}
