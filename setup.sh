#!/bin/sh
# Builds the framework offline and warms the Go build cache (plain, overlay and -race variants).
cd /verif || exit 2
export GOFLAGS=-mod=mod GOPROXY=off GOSUMDB=off GOTOOLCHAIN=local
mkdir -p bin evidence replays
go build -o bin/vtool ./cmd/vtool || exit 2
S=$(mktemp -d /var/tmp/verif-setup-XXXXXX)
bin/vtool instrument /repo "$S/gen" >/dev/null || exit 2
go build -overlay "$S/gen/overlay.json" -o "$S/mc" ./cmd/mc || exit 2
go build -o "$S/seq" ./cmd/seq || exit 2
go build -race -tags vsreal -o "$S/mcreal" ./cmd/mcreal || exit 2
rm -rf "$S"
echo setup ok
