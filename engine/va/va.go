//go:build !vsreal

// Package va replaces sync/atomic: sequentially consistent operations with a
// scheduling point before each (and after each in fine mode).
package va

import (
	"unsafe"

	"verif/engine/sched"
)

const (
	opLoad = iota + 40
	opStore
	opAdd
	opSwap
	opCAS
)

func pre(what string) { sched.Point(what, nil) }
func post() {
	if e := sched.Cur(); e != nil && e.Opts.Fine {
		sched.Point("after-atomic", nil)
	}
}

type integer interface {
	~int32 | ~int64 | ~uint32 | ~uint64 | ~uintptr
}

func load[T integer](p *T) T {
	pre("atomic.Load")
	v := *p
	sched.HBRead(unsafe.Pointer(p), opLoad, uint64(v))
	post()
	return v
}
func store[T integer](p *T, v T) {
	pre("atomic.Store")
	*p = v
	sched.HBWrite(unsafe.Pointer(p), opStore, uint64(v))
	post()
}
func add[T integer](p *T, d T) T {
	pre("atomic.Add")
	*p += d
	v := *p
	sched.HBWrite(unsafe.Pointer(p), opAdd, uint64(v))
	post()
	return v
}
func swap[T integer](p *T, n T) T {
	pre("atomic.Swap")
	old := *p
	*p = n
	sched.HBWrite(unsafe.Pointer(p), opSwap, uint64(n))
	post()
	return old
}
func cas[T integer](p *T, o, n T) bool {
	pre("atomic.CAS")
	ok := *p == o
	if ok {
		*p = n
		sched.HBWrite(unsafe.Pointer(p), opCAS, uint64(n))
	} else {
		sched.HBRead(unsafe.Pointer(p), opCAS, uint64(*p))
	}
	post()
	return ok
}

func LoadInt32(p *int32) int32       { return load(p) }
func LoadInt64(p *int64) int64       { return load(p) }
func LoadUint32(p *uint32) uint32    { return load(p) }
func LoadUint64(p *uint64) uint64    { return load(p) }
func LoadUintptr(p *uintptr) uintptr { return load(p) }

func StoreInt32(p *int32, v int32)       { store(p, v) }
func StoreInt64(p *int64, v int64)       { store(p, v) }
func StoreUint32(p *uint32, v uint32)    { store(p, v) }
func StoreUint64(p *uint64, v uint64)    { store(p, v) }
func StoreUintptr(p *uintptr, v uintptr) { store(p, v) }

func AddInt32(p *int32, d int32) int32         { return add(p, d) }
func AddInt64(p *int64, d int64) int64         { return add(p, d) }
func AddUint32(p *uint32, d uint32) uint32     { return add(p, d) }
func AddUint64(p *uint64, d uint64) uint64     { return add(p, d) }
func AddUintptr(p *uintptr, d uintptr) uintptr { return add(p, d) }

func SwapInt32(p *int32, n int32) int32         { return swap(p, n) }
func SwapInt64(p *int64, n int64) int64         { return swap(p, n) }
func SwapUint32(p *uint32, n uint32) uint32     { return swap(p, n) }
func SwapUint64(p *uint64, n uint64) uint64     { return swap(p, n) }
func SwapUintptr(p *uintptr, n uintptr) uintptr { return swap(p, n) }

func CompareAndSwapInt32(p *int32, o, n int32) bool       { return cas(p, o, n) }
func CompareAndSwapInt64(p *int64, o, n int64) bool       { return cas(p, o, n) }
func CompareAndSwapUint32(p *uint32, o, n uint32) bool    { return cas(p, o, n) }
func CompareAndSwapUint64(p *uint64, o, n uint64) bool    { return cas(p, o, n) }
func CompareAndSwapUintptr(p *uintptr, o, n uintptr) bool { return cas(p, o, n) }

func LoadPointer(p *unsafe.Pointer) unsafe.Pointer {
	pre("atomic.LoadPointer")
	v := *p
	sched.HBRead(unsafe.Pointer(p), opLoad, uint64(uintptr(v)))
	post()
	return v
}
func StorePointer(p *unsafe.Pointer, v unsafe.Pointer) {
	pre("atomic.StorePointer")
	*p = v
	sched.HBWrite(unsafe.Pointer(p), opStore, 0)
	post()
}
func SwapPointer(p *unsafe.Pointer, n unsafe.Pointer) unsafe.Pointer {
	pre("atomic.SwapPointer")
	old := *p
	*p = n
	sched.HBWrite(unsafe.Pointer(p), opSwap, 0)
	post()
	return old
}
func CompareAndSwapPointer(p *unsafe.Pointer, o, n unsafe.Pointer) bool {
	pre("atomic.CASPointer")
	ok := *p == o
	if ok {
		*p = n
		sched.HBWrite(unsafe.Pointer(p), opCAS, 0)
	} else {
		sched.HBRead(unsafe.Pointer(p), opCAS, 1)
	}
	post()
	return ok
}

// Pointer mirrors atomic.Pointer.
type Pointer[T any] struct {
	_ [0]*T
	p *T
}

func (x *Pointer[T]) Load() *T {
	pre("atomic.Pointer.Load")
	v := x.p
	sched.HBRead(x, opLoad, 0)
	post()
	return v
}
func (x *Pointer[T]) Store(v *T) {
	pre("atomic.Pointer.Store")
	x.p = v
	sched.HBWrite(x, opStore, 0)
	post()
}
func (x *Pointer[T]) Swap(n *T) *T {
	pre("atomic.Pointer.Swap")
	old := x.p
	x.p = n
	sched.HBWrite(x, opSwap, 0)
	post()
	return old
}
func (x *Pointer[T]) CompareAndSwap(o, n *T) bool {
	pre("atomic.Pointer.CAS")
	ok := x.p == o
	if ok {
		x.p = n
		sched.HBWrite(x, opCAS, 0)
	} else {
		sched.HBRead(x, opCAS, 1)
	}
	post()
	return ok
}

// Bool mirrors atomic.Bool.
type Bool struct{ v uint32 }

func (x *Bool) Load() bool { return load(&x.v) != 0 }
func (x *Bool) Store(b bool) {
	if b {
		store(&x.v, 1)
	} else {
		store(&x.v, 0)
	}
}
func (x *Bool) Swap(b bool) bool {
	n := uint32(0)
	if b {
		n = 1
	}
	return swap(&x.v, n) != 0
}
func (x *Bool) CompareAndSwap(o, n bool) bool {
	ou, nu := uint32(0), uint32(0)
	if o {
		ou = 1
	}
	if n {
		nu = 1
	}
	return cas(&x.v, ou, nu)
}

type Int32 struct{ v int32 }

func (x *Int32) Load() int32                    { return load(&x.v) }
func (x *Int32) Store(v int32)                  { store(&x.v, v) }
func (x *Int32) Add(d int32) int32              { return add(&x.v, d) }
func (x *Int32) Swap(n int32) int32             { return swap(&x.v, n) }
func (x *Int32) CompareAndSwap(o, n int32) bool { return cas(&x.v, o, n) }

type Int64 struct{ v int64 }

func (x *Int64) Load() int64                    { return load(&x.v) }
func (x *Int64) Store(v int64)                  { store(&x.v, v) }
func (x *Int64) Add(d int64) int64              { return add(&x.v, d) }
func (x *Int64) Swap(n int64) int64             { return swap(&x.v, n) }
func (x *Int64) CompareAndSwap(o, n int64) bool { return cas(&x.v, o, n) }

type Uint32 struct{ v uint32 }

func (x *Uint32) Load() uint32                    { return load(&x.v) }
func (x *Uint32) Store(v uint32)                  { store(&x.v, v) }
func (x *Uint32) Add(d uint32) uint32             { return add(&x.v, d) }
func (x *Uint32) Swap(n uint32) uint32            { return swap(&x.v, n) }
func (x *Uint32) CompareAndSwap(o, n uint32) bool { return cas(&x.v, o, n) }

type Uint64 struct{ v uint64 }

func (x *Uint64) Load() uint64                    { return load(&x.v) }
func (x *Uint64) Store(v uint64)                  { store(&x.v, v) }
func (x *Uint64) Add(d uint64) uint64             { return add(&x.v, d) }
func (x *Uint64) Swap(n uint64) uint64            { return swap(&x.v, n) }
func (x *Uint64) CompareAndSwap(o, n uint64) bool { return cas(&x.v, o, n) }

type Uintptr struct{ v uintptr }

func (x *Uintptr) Load() uintptr                    { return load(&x.v) }
func (x *Uintptr) Store(v uintptr)                  { store(&x.v, v) }
func (x *Uintptr) Add(d uintptr) uintptr            { return add(&x.v, d) }
func (x *Uintptr) Swap(n uintptr) uintptr           { return swap(&x.v, n) }
func (x *Uintptr) CompareAndSwap(o, n uintptr) bool { return cas(&x.v, o, n) }

// Value mirrors atomic.Value.
type Value struct{ v any }

func (x *Value) Load() any {
	pre("atomic.Value.Load")
	v := x.v
	sched.HBRead(x, opLoad, 0)
	post()
	return v
}
func (x *Value) Store(v any) {
	pre("atomic.Value.Store")
	if v == nil {
		panic("sync/atomic: store of nil value into Value")
	}
	x.v = v
	sched.HBWrite(x, opStore, 0)
	post()
}
func (x *Value) Swap(n any) any {
	pre("atomic.Value.Swap")
	old := x.v
	x.v = n
	sched.HBWrite(x, opSwap, 0)
	post()
	return old
}
func (x *Value) CompareAndSwap(o, n any) bool {
	pre("atomic.Value.CAS")
	ok := x.v == o
	if ok {
		x.v = n
		sched.HBWrite(x, opCAS, 0)
	} else {
		sched.HBRead(x, opCAS, 1)
	}
	post()
	return ok
}
