//go:build !vsreal

// Package vt replaces package time: timers are pseudo-threads whose firing is
// a scheduling choice; everything else is re-exported.
package vt

import (
	"time"

	"verif/engine/sched"
)

type (
	Duration   = time.Duration
	Time       = time.Time
	Month      = time.Month
	Weekday    = time.Weekday
	Location   = time.Location
	ParseError = time.ParseError
)

const (
	Nanosecond  = time.Nanosecond
	Microsecond = time.Microsecond
	Millisecond = time.Millisecond
	Second      = time.Second
	Minute      = time.Minute
	Hour        = time.Hour

	RFC3339     = time.RFC3339
	RFC3339Nano = time.RFC3339Nano
	RFC1123     = time.RFC1123
	Kitchen     = time.Kitchen
)

var (
	UTC   = time.UTC
	Local = time.Local
)

func Date(y int, m Month, d, h, mi, s, ns int, loc *Location) Time {
	return time.Date(y, m, d, h, mi, s, ns, loc)
}
func Unix(s, ns int64) Time                    { return time.Unix(s, ns) }
func UnixMilli(ms int64) Time                  { return time.UnixMilli(ms) }
func Parse(l, v string) (Time, error)          { return time.Parse(l, v) }
func ParseDuration(s string) (Duration, error) { return time.ParseDuration(s) }

var epoch = time.Date(2020, 1, 1, 0, 0, 0, 0, time.UTC)

// Now is a deterministic virtual clock inside executions.
func Now() Time {
	if e := sched.Cur(); e != nil {
		return epoch.Add(time.Duration(len(e.Choices)) * time.Microsecond)
	}
	return time.Now()
}
func Since(t Time) Duration { return Now().Sub(t) }
func Until(t Time) Duration { return t.Sub(Now()) }

const (
	opArm = iota + 60
	opFire
	opStop
)

// Timer mirrors time.Timer. Its expiry is a step of a daemon pseudo-thread.
type Timer struct {
	C     <-chan Time
	c     chan Time
	f     func()
	armed bool
	gen   int
	real  *time.Timer
}

func (t *Timer) arm() {
	t.armed = true
	t.gen++
	gen := t.gen
	sched.HBWrite(t, opArm, uint64(gen))
	sched.GoDaemon("timer", func() {
		// a stopped or reset incarnation is never enabled again; it stays parked
		// (daemon) until the execution is torn down.
		sched.Point("timer.fire", func() bool { return t.gen == gen && t.armed })
		if t.gen != gen || !t.armed {
			return
		}
		t.armed = false
		sched.HBWrite(t, opFire, uint64(gen))
		if t.f != nil {
			sched.Go("timerfunc", t.f)
			return
		}
		select {
		case t.c <- Now():
		default:
		}
	})
}

func NewTimer(d Duration) *Timer {
	if !sched.Active() {
		rt := time.NewTimer(d)
		return &Timer{C: rt.C, real: rt}
	}
	sched.Point("NewTimer", nil)
	c := make(chan Time, 1)
	t := &Timer{C: c, c: c}
	t.arm()
	return t
}

func AfterFunc(d Duration, f func()) *Timer {
	if !sched.Active() {
		return &Timer{real: time.AfterFunc(d, f)}
	}
	sched.Point("AfterFunc", nil)
	t := &Timer{f: f}
	t.arm()
	return t
}

func After(d Duration) <-chan Time { return NewTimer(d).C }

func Sleep(d Duration) {
	if !sched.Active() {
		time.Sleep(d)
		return
	}
	t := NewTimer(d)
	sched.Point("Sleep", func() bool { return !t.armed })
}

// Stop prevents the timer from firing; false if it already fired or was stopped.
func (t *Timer) Stop() bool {
	if t.real != nil {
		return t.real.Stop()
	}
	sched.Point("Timer.Stop", nil)
	was := t.armed
	t.armed = false
	r := uint64(0)
	if was {
		r = 1
	}
	sched.HBWrite(t, opStop, r)
	return was
}

// Reset re-arms the timer.
func (t *Timer) Reset(d Duration) bool {
	if t.real != nil {
		return t.real.Reset(d)
	}
	sched.Point("Timer.Reset", nil)
	was := t.armed
	t.armed = false
	t.arm()
	return was
}

// Ticker is not used by drpc; a minimal version fires repeatedly.
type Ticker struct {
	C <-chan Time
	t *Timer
}

func NewTicker(d Duration) *Ticker { t := NewTimer(d); return &Ticker{C: t.C, t: t} }
func (t *Ticker) Stop()            { t.t.Stop() }
func (t *Ticker) Reset(d Duration) { t.t.Reset(d) }
func Tick(d Duration) <-chan Time  { return NewTicker(d).C }
