//go:build !vsreal

// Package sched is the controlled scheduler: exactly one goroutine of an
// execution runs at a time; at every Point it asks the scheduler who goes next.
// The sequence of choices fully determines an execution, so executions can be
// replayed and enumerated (see explore.go).
package sched

import (
	"fmt"
	"runtime"
	"strings"
)

// G is one scheduled goroutine.
type G struct {
	idx     int    // creation index within this execution (not HB-invariant)
	lid     uint64 // logical id: hash of (parent lid, spawn index) - HB-invariant
	Name    string
	Daemon  bool // pseudo-threads (timers): being parked at the end is not "blocked"
	wake    chan struct{}
	exited  chan struct{}
	done    bool
	pending func() bool
	what    string
	note    string
	h       uint64 // happens-before history hash
	steps   int
	spawned int
	objs    int
	contrib uint64 // cached contribution to the state key

	// channel rendezvous bookkeeping (used by package vs)
	Wants   []any
	Handoff any
}

// What returns the operation the goroutine is parked at.
func (g *G) What() string { return g.what }

// Note returns the harness annotation of the goroutine.
func (g *G) Note() string { return g.note }

// Done reports whether the goroutine has exited.
func (g *G) Done() bool { return g.done }

// Lid is the logical (schedule independent) id.
func (g *G) Lid() uint64 { return g.lid }

// PointRec describes one decision point of an execution.
type PointRec struct {
	N              int  // number of alternatives
	RunningEnabled bool // thread choice where the running goroutine could continue
	Data           bool // data choice (select case pick, harness Choose)
	Key            uint64
	Sig            uint32
}

// BlockedG describes a goroutine that was still parked when the execution ended.
type BlockedG struct {
	Name, What, Note string
	Daemon           bool
}

// Exec is one execution.
type Exec struct {
	gs      []*G
	cur     *G
	prefix  []int
	sigs    []uint32 // expected signatures for the prefix (may be nil)
	Choices []int
	Points  []PointRec
	Trace   []string // only when Opts.Trace

	aborted  bool
	setup    bool // deterministic set-up phase: frozen, forward order, timers do not fire
	frozen   bool // no more alternatives are offered to the explorer (default schedule from here on)
	abortG   *G
	finished chan struct{}
	objs     map[any]*obj
	sum      uint64

	Opts      Opts
	Obs       []string
	Panics    []string
	Blocked   []BlockedG
	CapHit    bool
	Diverged  string
	userState map[string]any
}

// Opts configures one execution.
type Opts struct {
	StepCap int  // abort the execution after this many decision points (0 = 200000)
	Fine    bool // additional point after every atomic operation
	// AfterRelease adds a point after every mutex release: another goroutine can then run in the
	// gap between a critical section and the plain memory accesses that follow it (where a
	// use-after-release of shared data would happen)
	AfterRelease bool
	Trace        bool // record a readable trace
	NoKeys       bool // skip state-key computation (cache disabled)
	// Reverse flips the default schedule's priority among the other goroutines (highest creation
	// index first instead of lowest): a second reference schedule for deviation bounding.
	Reverse bool
}

type obj struct{ h, reads uint64 }

var cur *Exec

// Cur returns the active execution or nil.
func Cur() *Exec { return cur }

// Active reports whether a non-aborted execution is running.
func Active() bool { return cur != nil }

// Aborted reports whether the execution is being torn down.
func (e *Exec) Aborted() bool { return e.aborted }

// CurG returns the running goroutine.
func (e *Exec) CurG() *G { return e.cur }

// Gs returns all goroutines of the execution.
func (e *Exec) Gs() []*G { return e.gs }

// State is a scratch map for harness code that lives as long as the execution.
func (e *Exec) State() map[string]any {
	if e.userState == nil {
		e.userState = map[string]any{}
	}
	return e.userState
}

func mix(a, b uint64) uint64 {
	x := a*0x9E3779B97F4A7C15 ^ (b + 0x7F4A7C159E3779B9 + (a << 6) + (a >> 2))
	x ^= x >> 29
	x *= 0xBF58476D1CE4E5B9
	x ^= x >> 32
	return x
}

func strHash(s string) uint64 {
	h := uint64(14695981039346656037)
	for i := 0; i < len(s); i++ {
		h = (h ^ uint64(s[i])) * 1099511628211
	}
	return h
}

func (e *Exec) obj(k any) *obj {
	o := e.objs[k]
	if o == nil {
		g := e.cur
		g.objs++
		o = &obj{h: mix(g.lid, uint64(g.objs)+0x1234567)}
		e.objs[k] = o
	}
	return o
}

// HBWrite records a modifying operation by the running goroutine on object k.
func HBWrite(k any, op int, res uint64) {
	e := cur
	if e == nil || e.Opts.NoKeys {
		return
	}
	g := e.cur
	o := e.obj(k)
	h := mix(mix(mix(g.h, o.h), o.reads), uint64(op)<<32|res&0xffffffff)
	g.h, o.h, o.reads = h, h, 0
}

// HBRead records a read-only operation (reads of one version commute).
func HBRead(k any, op int, res uint64) {
	e := cur
	if e == nil || e.Opts.NoKeys {
		return
	}
	g := e.cur
	o := e.obj(k)
	g.h = mix(mix(g.h, o.h), uint64(op)<<32|res&0xffffffff)
	o.reads += mix(g.h, 77)
}

func (g *G) contribution() uint64 {
	k := mix(mix(g.lid, g.h), uint64(g.steps))
	if g.done {
		k = mix(k, 0xdead)
	}
	return k
}

func (e *Exec) refresh(g *G) {
	c := g.contribution()
	e.sum += c - g.contrib
	g.contrib = c
}

func (e *Exec) key() uint64 {
	if e.Opts.NoKeys {
		return 0
	}
	e.refresh(e.cur)
	return mix(e.sum, e.cur.lid)
}

func (g *G) enabled() bool { return !g.done && (g.pending == nil || g.pending()) }

// Enabled reports whether the goroutine could take its pending step.
func (g *G) Enabled() bool { return g.enabled() }

// Point is a scheduling point: the running goroutine announces the operation it
// is about to perform; it continues only when the scheduler picks it and
// enabled() (nil = always) holds.
func Point(what string, enabled func() bool) {
	e := cur
	if e == nil {
		return
	}
	g := e.cur
	if e.aborted {
		if enabled != nil && !enabled() {
			runtime.Goexit()
		}
		return
	}
	g.pending, g.what = enabled, what
	g.steps++
	e.schedule()
	g.pending = nil
}

// Note annotates the running goroutine (shown in blocked lists); returns the old note.
func Note(s string) string {
	e := cur
	if e == nil {
		return ""
	}
	old := e.cur.note
	e.cur.note = s
	return old
}

func (e *Exec) abort(g *G) {
	for _, o := range e.gs {
		if !o.done {
			e.Blocked = append(e.Blocked, BlockedG{Name: o.Name, What: o.what, Note: o.note, Daemon: o.Daemon})
		}
	}
	e.aborted = true
	if !g.done {
		e.abortG = g
	}
	close(e.finished)
	if !g.done {
		runtime.Goexit()
	}
}

func (e *Exec) record(p PointRec, idx int, desc func() string) {
	step := len(e.Choices)
	if step < len(e.sigs) && e.sigs[step] != p.Sig && e.Diverged == "" {
		e.Diverged = fmt.Sprintf("replay divergence at step %d: expected sig %x got %x (%s)", step, e.sigs[step], p.Sig, desc())
	}
	e.Choices = append(e.Choices, idx)
	e.Points = append(e.Points, p)
	if e.Opts.Trace {
		e.Trace = append(e.Trace, fmt.Sprintf("%d/%d %s", idx, p.N, desc()))
	}
}

func (e *Exec) nextChoice(n int) int {
	step := len(e.Choices)
	if step < len(e.prefix) {
		idx := e.prefix[step]
		if idx >= n {
			if e.Diverged == "" {
				e.Diverged = fmt.Sprintf("replay divergence at step %d: choice %d of %d", step, idx, n)
			}
			return 0
		}
		return idx
	}
	return 0
}

func (e *Exec) schedule() {
	g := e.cur
	stepCap := e.Opts.StepCap
	if stepCap == 0 {
		stepCap = 200000
	}
	if len(e.Choices) > stepCap {
		e.CapHit = true
		e.abort(g)
		return
	}
	// enabled set in canonical order: running goroutine first, then ascending idx (descending
	// when the reference schedule is reversed)
	var first *G
	n := 0
	runningEnabled := g.enabled()
	if runningEnabled {
		first = g
		n = 1
	}
	ng := len(e.gs)
	at := func(i int) *G {
		if e.Opts.Reverse && !e.setup {
			return e.gs[ng-1-i]
		}
		return e.gs[i]
	}
	var firstDaemon *G
	for i := 0; i < ng; i++ {
		if o := at(i); o != g && o.enabled() {
			if e.setup && o.Daemon {
				// timers stay armed during set-up unless nothing else can run
				if firstDaemon == nil {
					firstDaemon = o
				}
				continue
			}
			if first == nil {
				first = o
			}
			n++
		}
	}
	if n == 0 && firstDaemon != nil {
		first, n = firstDaemon, 1
	}
	if n == 0 {
		e.abort(g)
		return
	}
	next := first
	idx := 0
	if n > 1 && !e.frozen {
		idx = e.nextChoice(n)
		if idx > 0 {
			k := 0
			if runningEnabled {
				k = 1
			}
			for i := 0; i < ng; i++ {
				if o := at(i); o != g && o.enabled() {
					if k == idx {
						next = o
						break
					}
					k++
				}
			}
		}
		p := PointRec{N: n, RunningEnabled: runningEnabled, Key: e.key(), Sig: uint32(mix(g.lid, strHash(g.what)))}
		e.record(p, idx, func() string {
			return fmt.Sprintf("at %s@%s -> %s@%s", g.Name, g.what, next.Name, next.what)
		})
	}
	if next == g {
		return
	}
	e.cur = next
	next.wake <- struct{}{}
	if g.done {
		return
	}
	<-g.wake
	if e.aborted && g.pending != nil && !g.pending() {
		runtime.Goexit()
	}
}

// Choose is a data choice point with n alternatives (0 is the default).
func Choose(n int, what string) int {
	e := cur
	if e == nil || e.aborted || n <= 1 || e.frozen {
		return 0
	}
	g := e.cur
	idx := e.nextChoice(n)
	p := PointRec{N: n, Data: true, Key: mix(e.key(), 0xda7a), Sig: uint32(mix(g.lid, strHash(what)))}
	e.record(p, idx, func() string { return fmt.Sprintf("data %s@%s", g.Name, what) })
	HBWrite(g, 99, uint64(idx))
	return idx
}

func (e *Exec) spawn(name string, daemon bool, f func()) *G {
	parent := e.cur
	g := &G{idx: len(e.gs), Name: name, Daemon: daemon, wake: make(chan struct{}, 1), exited: make(chan struct{}), what: "start"}
	if parent != nil {
		parent.spawned++
		g.lid = mix(parent.lid, uint64(parent.spawned))
		HBWrite(g, 98, 0)
	} else {
		g.lid = 0xabcdef
	}
	g.h = mix(g.lid, 0xabc)
	e.gs = append(e.gs, g)
	if !e.Opts.NoKeys {
		e.refresh(g)
	}
	go func() {
		defer close(g.exited)
		<-g.wake
		defer func() {
			if r := recover(); r != nil {
				if !e.aborted {
					buf := make([]byte, 8192)
					e.Panics = append(e.Panics, fmt.Sprintf("goroutine %s: %v\n%s", g.Name, r, trimStack(string(buf[:runtime.Stack(buf, false)]))))
				}
			}
			g.done = true
			if e.aborted {
				return
			}
			g.what = "exit"
			g.steps++
			e.schedule()
		}()
		if e.aborted {
			return
		}
		f()
	}()
	return g
}

// trimStack keeps the function/file lines of a stack and removes everything that varies
// between runs (goroutine numbers, argument values, pc offsets), so that the same failure
// renders identically when replayed.
func trimStack(s string) string {
	lines := strings.Split(s, "\n")
	var out []string
	for _, l := range lines {
		if strings.Contains(l, "verif/engine/sched") || strings.Contains(l, "runtime/panic.go") || strings.HasPrefix(l, "goroutine ") || strings.HasPrefix(l, "panic(") {
			continue
		}
		if i := strings.LastIndex(l, "("); i > 0 && !strings.HasPrefix(l, "\t") {
			l = l[:i] // drop argument values
		}
		if i := strings.Index(l, " +0x"); i > 0 {
			l = l[:i]
		}
		out = append(out, l)
		if len(out) > 40 {
			break
		}
	}
	return strings.Join(out, "\n")
}

// Go starts a scheduled goroutine.
func Go(name string, f func()) {
	e := cur
	if e == nil {
		go f()
		return
	}
	if e.aborted {
		return
	}
	e.spawn(name, false, f)
}

// GoDaemon starts a pseudo-thread (timer) that may stay parked forever.
func GoDaemon(name string, f func()) {
	e := cur
	if e == nil {
		go f()
		return
	}
	if e.aborted {
		return
	}
	e.spawn(name, true, f)
}

// Quiesce parks the caller until no other non-daemon goroutine is enabled.
func Quiesce() {
	e := cur
	if e == nil {
		return
	}
	me := e.cur
	Point("quiesce", func() bool {
		for _, o := range e.gs {
			if o != me && !o.Daemon && o.enabled() {
				return false
			}
		}
		return true
	})
	// a quiescence barrier orders everything before it with everything after it
	if !e.Opts.NoKeys {
		for _, o := range e.gs {
			if o != me {
				me.h = mix(me.h, o.h)
			}
		}
	}
}

// QuiesceAll is Quiesce that also waits for daemons (armed timers fire first).
func QuiesceAll() {
	e := cur
	if e == nil {
		return
	}
	me := e.cur
	Point("quiesce-all", func() bool {
		for _, o := range e.gs {
			if o != me && o.enabled() {
				return false
			}
		}
		return true
	})
	if !e.Opts.NoKeys {
		for _, o := range e.gs {
			if o != me {
				me.h = mix(me.h, o.h)
			}
		}
	}
}

// Freeze ends the explored part of an execution: from here on the default schedule is
// followed and no alternatives are offered to the explorer. Scenarios call it once the phase
// the property quantifies over is finished (e.g. before tearing the harness down), which keeps
// deviation budgets for the part that matters.
func Freeze() {
	if e := cur; e != nil {
		e.frozen = true
	}
}

// Setup runs f as a deterministic set-up phase: no branching, goroutines run in creation
// order whatever the reference schedule, armed timers do not fire; branching resumes afterwards.
func Setup(f func()) {
	e := cur
	if e == nil || e.frozen {
		f()
		return
	}
	e.frozen, e.setup = true, true
	f()
	e.frozen, e.setup = false, false
}

// Observe appends an observation to the execution's outcome.
func Observe(s string) {
	if cur != nil && !cur.aborted {
		cur.Obs = append(cur.Obs, s)
	}
}

// Observef is Observe with formatting.
func Observef(format string, a ...any) { Observe(fmt.Sprintf(format, a...)) }

// BlockedNow lists non-daemon goroutines other than the caller that are parked
// on a disabled operation right now (meaningful after Quiesce).
func BlockedNow() []BlockedG {
	e := cur
	var out []BlockedG
	if e == nil {
		return nil
	}
	for _, o := range e.gs {
		if o != e.cur && !o.done && !o.Daemon {
			out = append(out, BlockedG{Name: o.Name, What: o.what, Note: o.note})
		}
	}
	return out
}

// Run executes body under the scheduler following prefix, then default choices.
func Run(opts Opts, prefix []int, sigs []uint32, body func()) *Exec {
	e := &Exec{prefix: prefix, sigs: sigs, finished: make(chan struct{}), objs: map[any]*obj{}, Opts: opts}
	cur = e
	main := e.spawn("main", false, body)
	e.cur = main
	main.wake <- struct{}{}
	<-e.finished
	if e.abortG != nil {
		<-e.abortG.exited
	}
	for _, g := range e.gs {
		if !g.done {
			e.cur = g
			select {
			case g.wake <- struct{}{}:
			default:
			}
			<-g.exited
		}
	}
	cur = nil
	return e
}

// LiveNamed counts goroutines whose name has the prefix and that have not exited.
func LiveNamed(prefix string) int {
	e := cur
	if e == nil {
		return 0
	}
	n := 0
	for _, g := range e.gs {
		if !g.done && strings.HasPrefix(g.Name, prefix) {
			n++
		}
	}
	return n
}
