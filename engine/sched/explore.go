//go:build !vsreal

package sched

import (
	"fmt"
	"sort"
	"strings"
	"time"
)

// CostModel selects how departures from the default schedule are charged.
type CostModel int

const (
	// Preemption: only switching away from a still-enabled goroutine costs 1;
	// choices at blocking points and data choices are free (CHESS).
	Preemption CostModel = iota
	// Deviation: every non-default choice costs 1 (delay bounding).
	Deviation
	// DataFree: data choices (operation sequences) are free, every scheduling
	// deviation costs 1: "all sequences under the default schedule" at bound 0.
	DataFree
)

func (c CostModel) String() string {
	switch c {
	case Deviation:
		return "deviation"
	case DataFree:
		return "data-free/deviation"
	}
	return "preemption"
}

// Config configures an exploration.
type Config struct {
	Model    CostModel
	Bound    int // <0: unbounded
	NoCache  bool
	Opts     Opts
	MaxExecs int       // 0 = unlimited
	Deadline time.Time // zero = none
	// Root restricts the exploration to the subtree below this prefix
	// (the prefix execution itself is included).
	Root     []int
	RootSigs []uint32
	// OnlyRoot: run just the root execution and report its children (for sharding).
	OnlyRoot bool
}

// Violation is a failed execution.
type Violation struct {
	Msg     string     `json:"msg"`
	Choices []int      `json:"choices"`
	Obs     []string   `json:"obs,omitempty"`
	Blocked []BlockedG `json:"blocked,omitempty"`
	Panics  []string   `json:"panics,omitempty"`
	Trace   []string   `json:"trace,omitempty"`
	Cost    int        `json:"cost"`
}

// Stats accumulates exploration counters.
type Stats struct {
	Execs, Pruned, Steps int
	States               int
	Outcomes             map[string]int
	Complete             bool // the bounded space was fully enumerated
	FirstChoices         []int
	LastChoices          []int
	MaxDepth             int
	Children             []Child // filled when OnlyRoot
}

// Child is a subtree root produced by OnlyRoot.
type Child struct {
	Prefix []int
	Sigs   []uint32
}

// Merge adds o into s.
func (s *Stats) Merge(o Stats) {
	s.Execs += o.Execs
	s.Pruned += o.Pruned
	s.Steps += o.Steps
	s.States += o.States
	if s.Outcomes == nil {
		s.Outcomes = map[string]int{}
	}
	for k, v := range o.Outcomes {
		s.Outcomes[k] += v
	}
	if o.MaxDepth > s.MaxDepth {
		s.MaxDepth = o.MaxDepth
	}
	if s.FirstChoices == nil {
		s.FirstChoices = o.FirstChoices
	}
	if o.LastChoices != nil {
		s.LastChoices = o.LastChoices
	}
}

// Outcome is the canonical (sorted) observation list of an execution.
func Outcome(e *Exec) string {
	o := append([]string{}, e.Obs...)
	sort.Strings(o)
	return strings.Join(o, " | ")
}

func costOf(model CostModel, p PointRec, choice int) int {
	if choice == 0 {
		return 0
	}
	if model == Deviation {
		return 1
	}
	if model == DataFree {
		if p.Data {
			return 0
		}
		return 1
	}
	if !p.Data && p.RunningEnabled {
		return 1
	}
	return 0
}

// CheckFunc evaluates the oracle on a finished execution; "" = fine.
type CheckFunc func(e *Exec) string

// Explore enumerates all executions of body within cfg's bound.
func Explore(cfg Config, body func(), check CheckFunc) (Stats, *Violation) {
	st := Stats{Outcomes: map[string]int{}, Complete: true}
	seen := map[uint64]int{}
	opts := cfg.Opts
	if cfg.NoCache {
		opts.NoKeys = true
	}
	var viol *Violation

	var rec func(prefix []int, sigs []uint32)
	rec = func(prefix []int, sigs []uint32) {
		if viol != nil {
			return
		}
		if (cfg.MaxExecs > 0 && st.Execs >= cfg.MaxExecs) || (!cfg.Deadline.IsZero() && st.Execs%16 == 0 && time.Now().After(cfg.Deadline)) {
			st.Complete = false
			return
		}
		e := Run(opts, prefix, sigs, body)
		st.Execs++
		st.Steps += len(e.Choices)
		if len(e.Choices) > st.MaxDepth {
			st.MaxDepth = len(e.Choices)
		}
		if st.FirstChoices == nil {
			st.FirstChoices = append([]int{}, e.Choices...)
		}
		st.LastChoices = e.Choices
		used := 0
		usedAt := make([]int, len(e.Points))
		for i, p := range e.Points {
			usedAt[i] = used
			used += costOf(cfg.Model, p, e.Choices[i])
		}
		msg := ""
		switch {
		case e.Diverged != "":
			msg = "HARNESS " + e.Diverged
		case e.CapHit:
			msg = "step cap hit (livelock?)"
		default:
			msg = check(e)
		}
		if msg != "" {
			viol = &Violation{Msg: msg, Choices: e.Choices, Obs: e.Obs, Blocked: e.Blocked, Panics: e.Panics, Cost: used}
			return
		}
		st.Outcomes[Outcome(e)]++
		var esigs []uint32
		mkSigs := func(n int) []uint32 {
			if esigs == nil {
				esigs = make([]uint32, len(e.Points))
				for i, p := range e.Points {
					esigs[i] = p.Sig
				}
			}
			return esigs[:n:n]
		}
		for i := len(prefix); i < len(e.Points); i++ {
			p := e.Points[i]
			rem := 1 << 30
			if cfg.Bound >= 0 {
				rem = cfg.Bound - usedAt[i]
			}
			if !cfg.NoCache {
				if best, ok := seen[p.Key]; ok && best >= rem {
					st.Pruned++
					break
				}
				seen[p.Key] = rem
			}
			for alt := 1; alt < p.N; alt++ {
				c := usedAt[i] + costOf(cfg.Model, p, alt)
				if cfg.Bound >= 0 && c > cfg.Bound {
					continue
				}
				np := append(append(make([]int, 0, i+1), e.Choices[:i]...), alt)
				if cfg.OnlyRoot {
					st.Children = append(st.Children, Child{Prefix: np, Sigs: append([]uint32{}, mkSigs(i)...)})
					continue
				}
				rec(np, mkSigs(i))
				if viol != nil {
					return
				}
			}
		}
	}
	rec(cfg.Root, cfg.RootSigs)
	st.States = len(seen)
	if cfg.NoCache {
		st.States = st.Execs // every execution is a distinct choice sequence
	}
	return st, viol
}

// Replay runs one schedule with tracing on and returns the execution.
func Replay(opts Opts, choices []int, body func()) *Exec {
	opts.Trace = true
	return Run(opts, choices, nil, body)
}

// FormatViolation renders a violation for humans.
func FormatViolation(v *Violation) string {
	var b strings.Builder
	fmt.Fprintf(&b, "%s\n  cost=%d choices=%v\n", v.Msg, v.Cost, v.Choices)
	for _, o := range v.Obs {
		fmt.Fprintf(&b, "  obs: %s\n", o)
	}
	for _, g := range v.Blocked {
		fmt.Fprintf(&b, "  blocked: %s @ %s %s\n", g.Name, g.What, g.Note)
	}
	for _, p := range v.Panics {
		fmt.Fprintf(&b, "  panic: %s\n", p)
	}
	return b.String()
}
