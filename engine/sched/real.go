//go:build vsreal

// Package sched, free-running binding (build tag vsreal): the same API as the
// controlled scheduler, bound to real goroutines. It exists for one purpose: to
// run the very same scenario bodies on real threads under the Go race detector,
// because the cooperative scheduler's hand-offs are happens-before edges that
// blind the detector. Nothing is decided in this mode; oracles are not evaluated.
package sched

import (
	"fmt"
	"math/rand"
	"runtime"
	"sync"
	"sync/atomic"
	"time"
)

type CostModel int

const (
	Preemption CostModel = iota
	Deviation
	DataFree
)

func (c CostModel) String() string { return "free-running" }

type Opts struct {
	StepCap      int
	Fine         bool
	AfterRelease bool
	Trace        bool
	NoKeys       bool
}

type BlockedG struct {
	Name, What, Note string
	Daemon           bool
}

type G struct{ Name string }

type Exec struct {
	mu       sync.Mutex
	state    map[string]any
	Obs      []string
	Panics   []string
	Blocked  []BlockedG
	Choices  []int
	Opts     Opts
	CapHit   bool
	Diverged string
	live     int64
	rng      *rand.Rand
}

type CheckFunc func(e *Exec) string

var (
	cur      atomic.Pointer[Exec]
	activity atomic.Uint64
)

func Cur() *Exec              { return cur.Load() }
func Active() bool            { return false }
func Touch()                  { activity.Add(1) }
func (e *Exec) Aborted() bool { return false }

func (e *Exec) State() map[string]any {
	e.mu.Lock()
	defer e.mu.Unlock()
	if e.state == nil {
		e.state = map[string]any{}
	}
	return e.state
}

func Point(what string, enabled func() bool) {
	activity.Add(1)
	runtime.Gosched()
}

func Note(s string) string { return "" }

func Choose(n int, what string) int {
	e := Cur()
	if e == nil || n <= 1 {
		return 0
	}
	e.mu.Lock()
	defer e.mu.Unlock()
	return e.rng.Intn(n)
}

func start(f func()) {
	e := Cur()
	atomic.AddInt64(&e.live, 1)
	go func() {
		defer atomic.AddInt64(&e.live, -1)
		defer func() {
			if r := recover(); r != nil {
				e.mu.Lock()
				e.Panics = append(e.Panics, fmt.Sprint(r))
				e.mu.Unlock()
			}
		}()
		activity.Add(1)
		f()
		activity.Add(1)
	}()
}

func Go(name string, f func())       { start(f) }
func GoDaemon(name string, f func()) { start(f) }

// Quiesce waits until the activity counter has been still for a few milliseconds.
func Quiesce() {
	last := activity.Load()
	still := 0
	for i := 0; i < 400 && still < 4; i++ {
		time.Sleep(500 * time.Microsecond)
		if now := activity.Load(); now == last {
			still++
		} else {
			last, still = now, 0
		}
	}
}

func QuiesceAll() { Quiesce() }

func Observe(s string) {
	if e := Cur(); e != nil {
		e.mu.Lock()
		e.Obs = append(e.Obs, s)
		e.mu.Unlock()
	}
}
func Observef(format string, a ...any) { Observe(fmt.Sprintf(format, a...)) }

func Freeze()                     {}
func Setup(f func())              { f() }
func BlockedNow() []BlockedG      { return nil }
func LiveNamed(prefix string) int { return 0 }

func HBWrite(k any, op int, res uint64) {}
func HBRead(k any, op int, res uint64)  {}

// RunReal executes body on real goroutines; it returns false if it did not finish in time.
func RunReal(seed int64, timeout time.Duration, body func()) (*Exec, bool) {
	e := &Exec{rng: rand.New(rand.NewSource(seed))}
	cur.Store(e)
	done := make(chan struct{})
	go func() {
		defer close(done)
		defer func() {
			if r := recover(); r != nil {
				e.mu.Lock()
				e.Panics = append(e.Panics, fmt.Sprint(r))
				e.mu.Unlock()
			}
		}()
		body()
	}()
	select {
	case <-done:
		return e, true
	case <-time.After(timeout):
		return e, false
	}
}

// Run mirrors the controlled scheduler's entry point (used by plan builders that
// measure a default run): here it simply executes body for real.
func Run(opts Opts, prefix []int, sigs []uint32, body func()) *Exec {
	e, _ := RunReal(1, 5*time.Second, body)
	return e
}
