// Package instrument rewrites the working tree of storj/drpc so that every
// synchronisation operation goes through the scheduler shims, and emits a
// `go build -overlay` file. /repo is never modified.
package instrument

import (
	"bytes"
	"encoding/json"
	"fmt"
	"go/ast"
	"go/format"
	"go/parser"
	"go/token"
	"os"
	"path/filepath"
	"sort"
	"strconv"
	"strings"

	"golang.org/x/tools/go/ast/astutil"
)

const (
	vsPath = "verif/engine/vs"
	vsName = "__vs"
)

var importMap = map[string]string{
	"sync":        "verif/engine/vs",
	"sync/atomic": "verif/engine/va",
	"time":        "verif/engine/vt",
}

var defaultName = map[string]string{"sync": "sync", "sync/atomic": "atomic", "time": "time"}

func sel(name string) ast.Expr {
	return &ast.SelectorExpr{X: ast.NewIdent(vsName), Sel: ast.NewIdent(name)}
}
func call(name string, args ...ast.Expr) *ast.CallExpr {
	return &ast.CallExpr{Fun: sel(name), Args: args}
}

func exprString(fset *token.FileSet, e ast.Node) string {
	var b bytes.Buffer
	_ = format.Node(&b, fset, e)
	s := b.String()
	if i := strings.IndexByte(s, '\n'); i >= 0 {
		s = s[:i]
	}
	if len(s) > 40 {
		s = s[:40]
	}
	return s
}

// Result summarises one instrumentation run.
type Result struct {
	Files   int
	Overlay string
	Counts  map[string]int
}

// skipDir reports directories that are not part of the library proper.
func skipDir(repo, dir string) bool {
	rel, _ := filepath.Rel(repo, dir)
	if rel == "." {
		return false
	}
	base := filepath.Base(dir)
	if strings.HasPrefix(base, ".") || strings.HasPrefix(base, "_") || base == "testdata" {
		return true
	}
	top := strings.Split(rel, string(filepath.Separator))[0]
	switch top {
	case "examples", "cmd", "scripts":
		return true
	}
	if _, err := os.Stat(filepath.Join(dir, "go.mod")); err == nil {
		return true // nested module
	}
	return false
}

// Run instruments every non-test Go file below repo into out and writes out/overlay.json.
// extra maps additional overlay entries (absolute repo path -> replacement file), applied
// before instrumentation (used by the self-test to layer deliberate edits).
func Run(repo, out string, extra map[string]string) (*Result, error) {
	res := &Result{Counts: map[string]int{}}
	overlay := map[string]string{}
	var files []string
	err := filepath.Walk(repo, func(path string, info os.FileInfo, err error) error {
		if err != nil {
			return err
		}
		if info.IsDir() {
			if skipDir(repo, path) {
				return filepath.SkipDir
			}
			return nil
		}
		if strings.HasSuffix(path, ".go") && !strings.HasSuffix(path, "_test.go") {
			files = append(files, path)
		}
		return nil
	})
	if err != nil {
		return nil, err
	}
	for p := range extra {
		found := false
		for _, f := range files {
			if f == p {
				found = true
			}
		}
		if !found {
			files = append(files, p)
		}
	}
	sort.Strings(files)
	for _, f := range files {
		srcPath := f
		if r, ok := extra[f]; ok {
			srcPath = r
		}
		rel, _ := filepath.Rel(repo, f)
		pkg := filepath.Base(filepath.Dir(f))
		src, changed, err := instrumentFile(srcPath, pkg, res.Counts)
		if err != nil {
			return nil, fmt.Errorf("%s: %w", f, err)
		}
		if !changed {
			if srcPath != f {
				overlay[f] = srcPath
			}
			continue
		}
		dst := filepath.Join(out, rel)
		if err := os.MkdirAll(filepath.Dir(dst), 0o755); err != nil {
			return nil, err
		}
		if err := os.WriteFile(dst, src, 0o644); err != nil {
			return nil, err
		}
		overlay[f] = dst
		res.Files++
	}
	js, _ := json.MarshalIndent(map[string]any{"Replace": overlay}, "", " ")
	res.Overlay = filepath.Join(out, "overlay.json")
	if err := os.WriteFile(res.Overlay, js, 0o644); err != nil {
		return nil, err
	}
	return res, nil
}

// isPkgIdent reports whether e is an identifier naming an imported package.
func isPkgIdent(file *ast.File, e ast.Expr) bool {
	id, ok := e.(*ast.Ident)
	if !ok {
		return false
	}
	for _, imp := range file.Imports {
		if imp.Name != nil {
			if imp.Name.Name == id.Name {
				return true
			}
			continue
		}
		p, _ := strconv.Unquote(imp.Path.Value)
		if i := strings.LastIndexByte(p, '/'); i >= 0 {
			p = p[i+1:]
		}
		if p == id.Name {
			return true
		}
	}
	return false
}

func instrumentFile(path, pkg string, counts map[string]int) ([]byte, bool, error) {
	fset := token.NewFileSet()
	file, err := parser.ParseFile(fset, path, nil, parser.ParseComments)
	if err != nil {
		return nil, false, err
	}
	// keep only the comments up to the package clause (build constraints, package doc):
	// free-floating comments end up in odd places once statements are rewritten.
	var keep []*ast.CommentGroup
	for _, cg := range file.Comments {
		if cg.End() < file.Package {
			keep = append(keep, cg)
		}
	}
	file.Comments = keep
	ast.Inspect(file, func(n ast.Node) bool {
		switch n := n.(type) {
		case *ast.FuncDecl:
			n.Doc = nil
		case *ast.GenDecl:
			n.Doc = nil
		case *ast.Field:
			n.Doc, n.Comment = nil, nil
		case *ast.ValueSpec:
			n.Doc, n.Comment = nil, nil
		case *ast.TypeSpec:
			n.Doc, n.Comment = nil, nil
		case *ast.ImportSpec:
			n.Doc, n.Comment = nil, nil
		}
		return true
	})
	changed := false
	usesVS := false
	for _, imp := range file.Imports {
		p, _ := strconv.Unquote(imp.Path.Value)
		if np, ok := importMap[p]; ok {
			if imp.Name != nil && (imp.Name.Name == "_" || imp.Name.Name == ".") {
				return nil, false, fmt.Errorf("unsupported import form of %s", p)
			}
			if imp.Name == nil {
				imp.Name = ast.NewIdent(defaultName[p])
			}
			imp.Path.Value = strconv.Quote(np)
			changed = true
			counts["import "+p]++
		}
	}

	// comm ops of select clauses and comma-ok receives are handled by their parents
	skip := map[ast.Node]bool{}
	ast.Inspect(file, func(n ast.Node) bool {
		if cc, ok := n.(*ast.CommClause); ok {
			switch c := cc.Comm.(type) {
			case *ast.ExprStmt:
				skip[c.X] = true
			case *ast.AssignStmt:
				skip[c.Rhs[0]] = true
				skip[c] = true
			case *ast.SendStmt:
				skip[c] = true
			}
		}
		return true
	})
	isRecv := func(e ast.Expr) (*ast.UnaryExpr, bool) {
		for {
			if p, ok := e.(*ast.ParenExpr); ok {
				e = p.X
				continue
			}
			break
		}
		u, ok := e.(*ast.UnaryExpr)
		return u, ok && u.Op == token.ARROW
	}
	ast.Inspect(file, func(n ast.Node) bool {
		switch n := n.(type) {
		case *ast.AssignStmt:
			if len(n.Lhs) == 2 && len(n.Rhs) == 1 && !skip[n] {
				if u, ok := isRecv(n.Rhs[0]); ok {
					skip[u] = true
					n.Rhs[0] = call("Recv2", u.X)
					usesVS = true
					counts["recv2"]++
				}
			}
		case *ast.ValueSpec:
			if len(n.Names) == 2 && len(n.Values) == 1 {
				if u, ok := isRecv(n.Values[0]); ok {
					skip[u] = true
					n.Values[0] = call("Recv2", u.X)
					usesVS = true
					counts["recv2"]++
				}
			}
		}
		return true
	})

	tmp := 0
	fresh := func(p string) *ast.Ident { tmp++; return ast.NewIdent(fmt.Sprintf("__%s%d", p, tmp)) }
	selectBlocks := map[*ast.BlockStmt]bool{}

	astutil.Apply(file, nil, func(c *astutil.Cursor) bool {
		switch n := c.Node().(type) {
		case *ast.SendStmt:
			if skip[n] {
				return true
			}
			c.Replace(&ast.ExprStmt{X: call("Send", n.Chan, n.Value)})
			usesVS = true
			counts["send"]++
		case *ast.UnaryExpr:
			if n.Op == token.ARROW && !skip[n] {
				c.Replace(call("Recv", n.X))
				usesVS = true
				counts["recv"]++
			}
		case *ast.CallExpr:
			if id, ok := n.Fun.(*ast.Ident); ok && id.Name == "close" && id.Obj == nil && len(n.Args) == 1 {
				n.Fun = sel("Close")
				usesVS = true
				counts["close"]++
			}
		case *ast.GoStmt:
			usesVS = true
			counts["go"]++
			name := pkg + "." + exprString(fset, n.Call.Fun)
			if _, isLit := n.Call.Fun.(*ast.FuncLit); isLit {
				name = pkg + ".func@" + strconv.Itoa(fset.Position(n.Pos()).Line)
			}
			var pre []ast.Stmt
			fn := n.Call.Fun
			if se, isSel := fn.(*ast.SelectorExpr); isSel && !isPkgIdent(file, se.X) {
				// evaluate the method value (its receiver) at the go statement
				id := fresh("f")
				pre = append(pre, &ast.AssignStmt{Lhs: []ast.Expr{id}, Tok: token.DEFINE, Rhs: []ast.Expr{fn}})
				fn = id
			}
			args := make([]ast.Expr, len(n.Call.Args))
			for i, a := range n.Call.Args {
				id := fresh("a")
				pre = append(pre, &ast.AssignStmt{Lhs: []ast.Expr{id}, Tok: token.DEFINE, Rhs: []ast.Expr{a}})
				args[i] = id
			}
			inner := &ast.CallExpr{Fun: fn, Args: args, Ellipsis: n.Call.Ellipsis}
			lit := &ast.FuncLit{Type: &ast.FuncType{Params: &ast.FieldList{}}, Body: &ast.BlockStmt{List: []ast.Stmt{&ast.ExprStmt{X: inner}}}}
			goCall := &ast.ExprStmt{X: call("Go", &ast.BasicLit{Kind: token.STRING, Value: strconv.Quote(name)}, lit)}
			c.Replace(&ast.BlockStmt{List: append(pre, goCall)})
		case *ast.RangeStmt:
			// `for range ch` cannot be recognised without type information; the only
			// syntactic hint is a receive-only use. drpc has none; flag obvious ones.
			if id, ok := n.X.(*ast.Ident); ok && (strings.HasSuffix(id.Name, "Ch") || id.Name == "ch") {
				return true
			}
		case *ast.SelectStmt:
			usesVS = true
			counts["select"]++
			var pre []ast.Stmt
			var cases []ast.Expr
			var clauses []ast.Stmt
			hasDefault := false
			idx := 0
			for _, cl := range n.Body.List {
				cc := cl.(*ast.CommClause)
				if cc.Comm == nil {
					hasDefault = true
					clauses = append(clauses, &ast.CaseClause{List: []ast.Expr{&ast.UnaryExpr{Op: token.SUB, X: &ast.BasicLit{Kind: token.INT, Value: "1"}}}, Body: cc.Body})
					continue
				}
				k := fresh("k")
				var body []ast.Stmt
				switch comm := cc.Comm.(type) {
				case *ast.SendStmt:
					pre = append(pre, &ast.AssignStmt{Lhs: []ast.Expr{k}, Tok: token.DEFINE, Rhs: []ast.Expr{call("SendCase", comm.Chan, comm.Value)}})
				case *ast.ExprStmt:
					u, _ := isRecv(comm.X)
					pre = append(pre, &ast.AssignStmt{Lhs: []ast.Expr{k}, Tok: token.DEFINE, Rhs: []ast.Expr{call("RecvCase", u.X)}})
				case *ast.AssignStmt:
					u, _ := isRecv(comm.Rhs[0])
					pre = append(pre, &ast.AssignStmt{Lhs: []ast.Expr{k}, Tok: token.DEFINE, Rhs: []ast.Expr{call("RecvCase", u.X)}})
					rhs := []ast.Expr{&ast.SelectorExpr{X: k, Sel: ast.NewIdent("Val")}}
					if len(comm.Lhs) == 2 {
						rhs = append(rhs, &ast.SelectorExpr{X: k, Sel: ast.NewIdent("Ok")})
					}
					body = append(body, &ast.AssignStmt{Lhs: comm.Lhs, Tok: comm.Tok, Rhs: rhs})
					if comm.Tok == token.DEFINE { // silence "declared and not used"
						for _, l := range comm.Lhs {
							if id, ok := l.(*ast.Ident); ok && id.Name != "_" {
								body = append(body, &ast.AssignStmt{Lhs: []ast.Expr{ast.NewIdent("_")}, Tok: token.ASSIGN, Rhs: []ast.Expr{ast.NewIdent(id.Name)}})
							}
						}
					}
				}
				cases = append(cases, k)
				clauses = append(clauses, &ast.CaseClause{List: []ast.Expr{&ast.BasicLit{Kind: token.INT, Value: strconv.Itoa(idx)}}, Body: append(body, cc.Body...)})
				idx++
			}
			args := []ast.Expr{ast.NewIdent(strconv.FormatBool(hasDefault))}
			args = append(args, cases...)
			clauses = append(clauses, &ast.CaseClause{List: nil, Body: []ast.Stmt{&ast.ExprStmt{X: &ast.CallExpr{Fun: ast.NewIdent("panic"), Args: []ast.Expr{&ast.BasicLit{Kind: token.STRING, Value: strconv.Quote("vs: unreachable select result")}}}}}})
			sw := &ast.SwitchStmt{Tag: call("Select", args...), Body: &ast.BlockStmt{List: clauses}}
			blk := &ast.BlockStmt{List: append(pre, sw)}
			selectBlocks[blk] = true
			c.Replace(blk)
		case *ast.LabeledStmt:
			// L: select{...} became L: { pre; switch } - move the label onto the switch so
			// that `break L` stays valid.
			if blk, ok := n.Stmt.(*ast.BlockStmt); ok && selectBlocks[blk] {
				last := len(blk.List) - 1
				sw := blk.List[last]
				blk.List[last] = &ast.LabeledStmt{Label: n.Label, Stmt: sw}
				c.Replace(blk)
			}
		}
		return true
	})

	if !changed && !usesVS {
		return nil, false, nil
	}
	if usesVS {
		astutil.AddNamedImport(fset, file, vsName, vsPath)
	}
	var b bytes.Buffer
	if err := format.Node(&b, fset, file); err != nil {
		return nil, false, err
	}
	return b.Bytes(), true, nil
}
