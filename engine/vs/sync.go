//go:build !vsreal

// Package vs replaces package sync (and the channel statements) of the code
// under test with versions whose blocking behaviour is owned by the scheduler.
package vs

import (
	"sync"

	"verif/engine/sched"
)

// Locker mirrors sync.Locker.
type Locker interface {
	Lock()
	Unlock()
}

// Pool and Map are not synchronisation the explorer needs to own.
// Pool is a deterministic stand-in for sync.Pool (the real one depends on which P a goroutine
// runs on and on garbage collections, neither of which the scheduler owns): a LIFO free list
// whose Get and Put are scheduling points.
type Pool struct {
	New   func() any
	items []any
}

// Get returns the most recently Put item, or New().
func (p *Pool) Get() any {
	sched.Point("Pool.Get", nil)
	if n := len(p.items); n > 0 {
		x := p.items[n-1]
		p.items = p.items[:n-1]
		return x
	}
	if p.New != nil {
		return p.New()
	}
	return nil
}

// Put returns an item to the free list.
func (p *Pool) Put(x any) {
	sched.Point("Pool.Put", nil)
	if x != nil {
		p.items = append(p.items, x)
	}
}

type Map = sync.Map

// hb op codes
const (
	opLock = iota + 1
	opUnlock
	opTryLock
	opCondWait
	opBroadcast
	opSignal
	opOnceRead
	opOnceDone
	opWgAdd
	opWgWait
	opRLock
	opRUnlock
)

// Mutex is a scheduler-owned mutex.
type Mutex struct{ held bool }

func (m *Mutex) Lock() {
	sched.Point("Lock", func() bool { return !m.held })
	m.held = true
	sched.HBWrite(m, opLock, 0)
}

func (m *Mutex) Unlock() {
	sched.Point("Unlock", nil)
	if !m.held && sched.Active() && !sched.Cur().Aborted() {
		panic("sync: unlock of unlocked mutex")
	}
	m.held = false
	sched.HBWrite(m, opUnlock, 0)
	afterRelease()
}

func afterRelease() {
	if e := sched.Cur(); e != nil && e.Opts.AfterRelease && !e.Aborted() {
		sched.Point("after-release", nil)
	}
}

func (m *Mutex) TryLock() bool {
	sched.Point("TryLock", nil)
	ok := !m.held
	r := uint64(0)
	if ok {
		m.held = true
		r = 1
	}
	sched.HBWrite(m, opTryLock, r)
	return ok
}

// RWMutex is a scheduler-owned reader/writer mutex.
type RWMutex struct {
	w       bool
	readers int
}

func (m *RWMutex) Lock() {
	sched.Point("RW.Lock", func() bool { return !m.w && m.readers == 0 })
	m.w = true
	sched.HBWrite(m, opLock, 0)
}
func (m *RWMutex) Unlock() {
	sched.Point("RW.Unlock", nil)
	m.w = false
	sched.HBWrite(m, opUnlock, 0)
	afterRelease()
}
func (m *RWMutex) TryLock() bool {
	sched.Point("RW.TryLock", nil)
	ok := !m.w && m.readers == 0
	r := uint64(0)
	if ok {
		m.w = true
		r = 1
	}
	sched.HBWrite(m, opTryLock, r)
	return ok
}
func (m *RWMutex) RLock() {
	sched.Point("RW.RLock", func() bool { return !m.w })
	m.readers++
	sched.HBWrite(m, opRLock, 0)
}
func (m *RWMutex) RUnlock() {
	sched.Point("RW.RUnlock", nil)
	m.readers--
	sched.HBWrite(m, opRUnlock, 0)
	afterRelease()
}
func (m *RWMutex) TryRLock() bool {
	sched.Point("RW.TryRLock", nil)
	ok := !m.w
	r := uint64(0)
	if ok {
		m.readers++
		r = 1
	}
	sched.HBWrite(m, opTryLock, r)
	return ok
}
func (m *RWMutex) RLocker() Locker { return (*rlocker)(m) }

type rlocker RWMutex

func (r *rlocker) Lock()   { (*RWMutex)(r).RLock() }
func (r *rlocker) Unlock() { (*RWMutex)(r).RUnlock() }

// Cond is a scheduler-owned condition variable; Signal wakes in FIFO order.
type Cond struct {
	L       Locker
	waiters []*condWaiter
}
type condWaiter struct{ woken bool }

func NewCond(l Locker) *Cond { return &Cond{L: l} }

func (c *Cond) Wait() {
	w := &condWaiter{}
	c.waiters = append(c.waiters, w)
	// release the lock without a scheduling point of its own (atomically with enqueueing)
	switch l := c.L.(type) {
	case *Mutex:
		l.held = false
		sched.HBWrite(l, opUnlock, 0)
	default:
		c.L.Unlock()
	}
	sched.Point("Cond.Wait", func() bool { return w.woken })
	sched.HBWrite(c, opCondWait, 0)
	c.L.Lock()
}

func (c *Cond) Broadcast() {
	sched.Point("Broadcast", nil)
	for _, w := range c.waiters {
		w.woken = true
	}
	c.waiters = nil
	sched.HBWrite(c, opBroadcast, 0)
}

func (c *Cond) Signal() {
	sched.Point("Signal", nil)
	if len(c.waiters) > 0 {
		c.waiters[0].woken = true
		c.waiters = c.waiters[1:]
	}
	sched.HBWrite(c, opSignal, 0)
}

// Once mirrors sync.Once.
type Once struct {
	done bool
	m    Mutex
}

func (o *Once) Do(f func()) {
	sched.Point("Once", nil)
	sched.HBRead(o, opOnceRead, b2u(o.done))
	if o.done {
		return
	}
	o.m.Lock()
	defer o.m.Unlock()
	if !o.done {
		defer func() { o.done = true; sched.HBWrite(o, opOnceDone, 0) }()
		f()
	}
}

// WaitGroup mirrors sync.WaitGroup.
type WaitGroup struct{ n int }

func (w *WaitGroup) Add(d int) {
	sched.Point("wg.Add", nil)
	w.n += d
	if w.n < 0 && sched.Active() && !sched.Cur().Aborted() {
		panic("sync: negative WaitGroup counter")
	}
	sched.HBWrite(w, opWgAdd, uint64(w.n))
}
func (w *WaitGroup) Done() { w.Add(-1) }
func (w *WaitGroup) Wait() {
	sched.Point("wg.Wait", func() bool { return w.n <= 0 })
	sched.HBRead(w, opWgWait, 0)
}

func b2u(b bool) uint64 {
	if b {
		return 1
	}
	return 0
}

// OnceFunc etc. are not used by drpc; add on demand.
