//go:build !vsreal

package vs

import "verif/engine/sched"

// Monitor is a guarded-command primitive for harness code (model transports,
// fake connections): Do waits until ready() holds and then runs action()
// atomically. Under the scheduler this is a single scheduling point.
type Monitor struct{ _ int }

const opMonitor = 70

// Do runs action once ready() (nil = always) holds.
func (m *Monitor) Do(what string, ready func() bool, action func()) {
	sched.Point(what, ready)
	action()
	sched.HBWrite(m, opMonitor, 0)
}

// Peek runs a read-only action at a scheduling point.
func (m *Monitor) Peek(what string, action func()) {
	sched.Point(what, nil)
	action()
	sched.HBRead(m, opMonitor, 0)
}
