//go:build !vsreal

package vs

import (
	"reflect"

	"verif/engine/sched"
)

const (
	opChanRecv = iota + 20
	opChanRendezvousRecv
	opChanSend
	opChanRendezvousSend
	opChanHandoff
	opChanClose
	opChanProbe
)

func chanPtr(ch any) uintptr {
	v := reflect.ValueOf(ch)
	if !v.IsValid() || v.IsNil() {
		return 0
	}
	return v.Pointer()
}

func isClosed[T any](ch <-chan T) bool {
	if ch == nil {
		return false
	}
	select {
	case _, ok := <-ch:
		if ok {
			panic("vs: closedness probe consumed a value")
		}
		return true
	default:
		return false
	}
}

// Case is one arm of a select.
type Case interface {
	ptr() uintptr
	send() bool
	ready(g *sched.G) bool
	fire(g *sched.G)
}

// RC is a receive case.
type RC[T any] struct {
	ch  <-chan T
	p   uintptr
	Val T
	Ok  bool
}

// SC is a send case.
type SC[T any] struct {
	ch chan<- T
	p  uintptr
	v  T
}

func RecvCase[T any](ch <-chan T) *RC[T]      { return &RC[T]{ch: ch, p: chanPtr(ch)} }
func SendCase[T any](ch chan<- T, v T) *SC[T] { return &SC[T]{ch: ch, v: v, p: chanPtr(ch)} }

func (c *RC[T]) ptr() uintptr { return c.p }
func (c *RC[T]) send() bool   { return false }
func (c *SC[T]) ptr() uintptr { return c.p }
func (c *SC[T]) send() bool   { return true }

// partner finds a goroutine parked in a select that wants the complementary
// operation on the same unbuffered channel.
func partner(g *sched.G, p uintptr, wantSend bool) (*sched.G, Case) {
	for _, o := range sched.Cur().Gs() {
		if o == g || o.Done() || o.Handoff != nil {
			continue
		}
		for _, w := range o.Wants {
			c := w.(Case)
			if c.ptr() == p && c.send() == wantSend {
				return o, c
			}
		}
	}
	return nil, nil
}

func (c *RC[T]) ready(g *sched.G) bool {
	if c.ch == nil {
		return false
	}
	if cap(c.ch) > 0 {
		return len(c.ch) > 0 || isClosed(c.ch)
	}
	if isClosed(c.ch) {
		return true
	}
	o, _ := partner(g, c.p, true)
	return o != nil
}

func (c *SC[T]) ready(g *sched.G) bool {
	if c.ch == nil {
		return false
	}
	if cap(c.ch) > 0 {
		return len(c.ch) < cap(c.ch)
	}
	o, _ := partner(g, c.p, false)
	return o != nil
}

func (c *RC[T]) fire(g *sched.G) {
	if cap(c.ch) > 0 || isClosed(c.ch) {
		c.Val, c.Ok = <-c.ch
		if c.Ok {
			sched.HBWrite(c.p, opChanRecv, 1)
		} else {
			sched.HBRead(c.p, opChanRecv, 0) // observing closedness commutes with other observers
		}
		return
	}
	o, w := partner(g, c.p, true)
	s := w.(*SC[T])
	c.Val, c.Ok = s.v, true
	o.Handoff = w
	sched.HBWrite(c.p, opChanRendezvousRecv, 0)
}

func (c *SC[T]) fire(g *sched.G) {
	if cap(c.ch) > 0 {
		c.ch <- c.v
		sched.HBWrite(c.p, opChanSend, 0)
		return
	}
	o, w := partner(g, c.p, false)
	r := w.(*RC[T])
	r.Val, r.Ok = c.v, true
	o.Handoff = w
	sched.HBWrite(c.p, opChanRendezvousSend, 0)
}

// Select performs a select statement; it returns the index of the case that
// fired or -1 for default. Which ready case fires is an explored choice.
func Select(hasDefault bool, cases ...Case) int {
	e := sched.Cur()
	if e == nil {
		return realSelect(hasDefault, cases)
	}
	g := e.CurG()
	wants := make([]any, len(cases))
	for i, c := range cases {
		wants[i] = c
	}
	g.Wants = wants
	g.Handoff = nil
	if hasDefault {
		sched.Point("select/default", nil)
	} else {
		sched.Point("select", func() bool {
			if g.Handoff != nil {
				return true
			}
			for _, c := range cases {
				if c.ready(g) {
					return true
				}
			}
			return false
		})
	}
	defer func() { g.Wants, g.Handoff = nil, nil }()
	if g.Handoff != nil { // a partner completed the rendezvous for us while we were parked
		for i, c := range cases {
			if any(c) == g.Handoff {
				sched.HBWrite(c.ptr(), opChanHandoff, 0)
				return i
			}
		}
	}
	var ready []int
	for i, c := range cases {
		if c.ready(g) {
			ready = append(ready, i)
		}
	}
	if len(ready) == 0 {
		if !hasDefault && !e.Aborted() {
			panic("vs: select resumed with no ready case")
		}
		// default taken: this observed every channel as not ready
		for _, c := range cases {
			sched.HBRead(c.ptr(), opChanProbe, 0)
		}
		return -1
	}
	k := 0
	if len(ready) > 1 {
		k = sched.Choose(len(ready), "select-case")
	}
	i := ready[k]
	cases[i].fire(g)
	return i
}

// realSelect is used outside executions (package init, plain tests): only the
// trivial forms are supported.
func realSelect(hasDefault bool, cases []Case) int {
	for {
		for i, c := range cases {
			if rc, ok := c.(interface{ tryReal() bool }); ok && rc.tryReal() {
				return i
			}
		}
		if hasDefault {
			return -1
		}
		if len(cases) == 1 {
			cases[0].(interface{ blockReal() }).blockReal()
			return 0
		}
		panic("vs: multi-way blocking select outside an execution")
	}
}

func (c *RC[T]) tryReal() bool {
	if c.ch == nil {
		return false
	}
	select {
	case c.Val, c.Ok = <-c.ch:
		return true
	default:
		return false
	}
}
func (c *RC[T]) blockReal() { c.Val, c.Ok = <-c.ch }
func (c *SC[T]) tryReal() bool {
	if c.ch == nil {
		return false
	}
	select {
	case c.ch <- c.v:
		return true
	default:
		return false
	}
}
func (c *SC[T]) blockReal() { c.ch <- c.v }

func Send[T any](ch chan<- T, v T) { Select(false, SendCase(ch, v)) }
func Recv[T any](ch <-chan T) T    { c := RecvCase(ch); Select(false, c); return c.Val }
func Recv2[T any](ch <-chan T) (T, bool) {
	c := RecvCase(ch)
	Select(false, c)
	return c.Val, c.Ok
}

// Close closes a channel at a scheduling point.
func Close[T any](ch chan T) {
	sched.Point("close", nil)
	if e := sched.Cur(); e != nil && e.Aborted() {
		defer func() { _ = recover() }()
	}
	close(ch)
	sched.HBWrite(chanPtr(ch), opChanClose, 0)
}

// Go starts a scheduled goroutine.
func Go(name string, f func()) { sched.Go(name, f) }

// Range iterates over a channel like `for v := range ch`.
func Range[T any](ch <-chan T, body func(T) bool) {
	for {
		v, ok := Recv2(ch)
		if !ok || !body(v) {
			return
		}
	}
}

// TryRecv is `select { case v, ok := <-ch: ...; default: }` for harness code.
// got reports whether the receive case fired; ok is the comma-ok result.
func TryRecv[T any](ch <-chan T) (v T, ok bool, got bool) {
	c := RecvCase(ch)
	if Select(true, c) == 0 {
		return c.Val, c.Ok, true
	}
	return v, false, false
}

// IsClosed reports (at a scheduling point) whether a signal channel is closed.
func IsClosed[T any](ch <-chan T) bool {
	_, ok, got := TryRecv(ch)
	return got && !ok
}
