//go:build vsreal

// Package vs, free-running binding (build tag vsreal): the harness-facing helpers
// bound to the real sync package, channels and goroutines (see sched/real.go).
package vs

import (
	"sync"

	"verif/engine/sched"
)

type (
	Mutex     = sync.Mutex
	RWMutex   = sync.RWMutex
	WaitGroup = sync.WaitGroup
	Once      = sync.Once
	Cond      = sync.Cond
	Locker    = sync.Locker
	Pool      = sync.Pool
	Map       = sync.Map
)

func NewCond(l Locker) *Cond { return sync.NewCond(l) }

func Go(name string, f func()) { sched.Go(name, f) }

func Send[T any](ch chan<- T, v T) { sched.Touch(); ch <- v; sched.Touch() }
func Recv[T any](ch <-chan T) T    { sched.Touch(); v := <-ch; sched.Touch(); return v }
func Recv2[T any](ch <-chan T) (T, bool) {
	sched.Touch()
	v, ok := <-ch
	sched.Touch()
	return v, ok
}
func Close[T any](ch chan T) { sched.Touch(); close(ch) }

func TryRecv[T any](ch <-chan T) (v T, ok bool, got bool) {
	sched.Touch()
	select {
	case v, ok = <-ch:
		return v, ok, true
	default:
		return v, false, false
	}
}

func IsClosed[T any](ch <-chan T) bool {
	_, ok, got := TryRecv(ch)
	return got && !ok
}

// Monitor is the guarded-command primitive on a real mutex and condition variable.
type Monitor struct {
	mu   sync.Mutex
	cond *sync.Cond
}

func (m *Monitor) init() {
	if m.cond == nil {
		m.cond = sync.NewCond(&m.mu)
	}
}

func (m *Monitor) Do(what string, ready func() bool, action func()) {
	m.mu.Lock()
	m.init()
	for ready != nil && !ready() {
		m.cond.Wait()
	}
	sched.Touch()
	action()
	m.cond.Broadcast()
	m.mu.Unlock()
}

func (m *Monitor) Peek(what string, action func()) {
	m.mu.Lock()
	sched.Touch()
	action()
	m.mu.Unlock()
}
