// Package s13: C13 (sequential part) - every function that consumes peer-controlled
// bytes or handler errors returns a value or an error: no panic, bounded allocation.
package s13

import (
	"bytes"
	"context"
	"encoding/base64"
	"encoding/binary"
	"encoding/json"
	"errors"
	"fmt"
	"io"
	"net/http/httptest"
	"os"
	"runtime"
	"strings"

	"storj.io/drpc"
	"storj.io/drpc/drpcerr"
	"storj.io/drpc/drpchttp"
	"storj.io/drpc/drpcmetadata"
	"storj.io/drpc/drpcwire"

	"verif/checks/s11"
	"verif/checks/s14"
	"verif/harness/enc"
	"verif/seq"
)

func guard(name string, f func()) (msg string) {
	defer func() {
		if r := recover(); r != nil {
			msg = fmt.Sprintf("%s panicked: %v", name, r)
		}
	}()
	f()
	return ""
}

func enumBytes(ctx *seq.Ctx, alphabet []byte, maxLen int, f func(b []byte) string) {
	var shards [][]byte
	shards = append(shards, nil)
	for _, a := range alphabet {
		shards = append(shards, []byte{a})
	}
	seq.Parallel(len(shards), func(i int) {
		if i == 0 {
			if msg := f(nil); msg != "" {
				ctx.Fail(msg, map[string]string{"hex": ""})
			}
			ctx.Count(1, 1, 0)
			return
		}
		buf := append(make([]byte, 0, maxLen), shards[i]...)
		n := 0
		var rec func() bool
		rec = func() bool {
			n++
			if msg := f(buf); msg != "" {
				if ctx.Fail(msg+" input="+seq.Hex(buf), map[string]string{"hex": seq.Hex(buf)}) {
					return false
				}
			}
			if n%8192 == 0 && ctx.Expired() {
				return false
			}
			if len(buf) == maxLen {
				return true
			}
			for _, a := range alphabet {
				buf = append(buf, a)
				ok := rec()
				buf = buf[:len(buf)-1]
				if !ok {
					return false
				}
			}
			return true
		}
		rec()
		ctx.Count(n, n, 0)
	})
}

func full() []byte {
	a := make([]byte, 256)
	for i := range a {
		a[i] = byte(i)
	}
	return a
}

func hexReplay(f func(b []byte) string) func(json.RawMessage) string {
	return func(in json.RawMessage) string {
		var v struct{ Hex string }
		_ = json.Unmarshal(in, &v)
		return f(seq.Unhex(v.Hex))
	}
}

func unmarshalErrorCase(b []byte) string {
	var err error
	if m := guard("UnmarshalError", func() { err = drpcwire.UnmarshalError(b) }); m != "" {
		return m
	}
	if err == nil {
		return "UnmarshalError returned nil"
	}
	var c uint64
	if m := guard("drpcerr.Code", func() { c = drpcerr.Code(err); _ = err.Error() }); m != "" {
		return m
	}
	if len(b) >= 8 && c != binary.BigEndian.Uint64(b[:8]) {
		return fmt.Sprintf("code %d does not match the 8-byte prefix", c)
	}
	return ""
}

type oneShot struct{ b []byte }

func (o *oneShot) Read(p []byte) (int, error) {
	if len(o.b) == 0 {
		return 0, io.EOF
	}
	n := copy(p, o.b)
	o.b = o.b[n:]
	return n, nil
}

func readerCase(b []byte) string {
	return guard("Reader.ReadPacket", func() {
		rd := drpcwire.NewReaderWithOptions(&oneShot{b: append([]byte(nil), b...)}, drpcwire.ReaderOptions{MaximumBufferSize: 64})
		for i := 0; i < 64; i++ {
			if _, err := rd.ReadPacket(); err != nil {
				return
			}
		}
	})
}

type feeder struct {
	hdr  []byte
	left int
	fed  int
}

func (f *feeder) Read(p []byte) (int, error) {
	if len(f.hdr) > 0 {
		n := copy(p, f.hdr)
		f.hdr = f.hdr[n:]
		f.fed += n
		return n, nil
	}
	if f.left == 0 {
		return 0, io.EOF
	}
	n := min(len(p), f.left, 4096)
	for i := 0; i < n; i++ {
		p[i] = 0
	}
	f.left -= n
	f.fed += n
	return n, nil
}

// hostileLengthCase: a frame announcing `declared` bytes whose payload keeps coming: the reader
// must give up within a small multiple of its maximum instead of buffering what the peer sends.
func hostileLengthCase(max int, declared uint64, chunkHdr bool) string {
	hdr := []byte{0x05, 0x01, 0x01}
	for v := declared; ; v >>= 7 {
		if v < 0x80 {
			hdr = append(hdr, byte(v))
			break
		}
		hdr = append(hdr, byte(v)|0x80)
	}
	f := &feeder{hdr: hdr, left: 64 << 20}
	var err error
	if m := guard("Reader.ReadPacket", func() {
		rd := drpcwire.NewReaderWithOptions(f, drpcwire.ReaderOptions{MaximumBufferSize: max})
		_, err = rd.ReadPacket()
	}); m != "" {
		return m
	}
	if limit := 4*max + 64<<10; f.fed > limit {
		return fmt.Sprintf("reader with MaximumBufferSize=%d consumed (and buffered) %d bytes of a frame announcing %d bytes before giving up (err=%v)", max, f.fed, declared, err)
	}
	if err == nil {
		return "reader returned a packet for an incomplete frame"
	}
	return ""
}

func decodeCase(b []byte) string {
	return guard("drpcmetadata.Decode", func() { _, _ = drpcmetadata.Decode(b) })
}

func headerCase(hs []string) string {
	return guard("drpchttp.Context", func() {
		req := httptest.NewRequest("POST", "/x", nil)
		for _, h := range hs {
			req.Header.Add("X-Drpc-Metadata", h)
		}
		_, _ = drpchttp.Context(req)
	})
}

// error values for drpcerr.Code and the gateway's code extraction
type eUnwrap struct{ in error }

func (e *eUnwrap) Error() string { return "unwrap" }
func (e *eUnwrap) Unwrap() error { return e.in }

type eCause struct{ in error }

func (e *eCause) Error() string { return "cause" }
func (e *eCause) Cause() error  { return e.in }

type eCycle struct{}

func (e *eCycle) Error() string { return "cycle" }
func (e *eCycle) Unwrap() error { return e }

// two distinct values that unwrap to each other, through Unwrap or through Cause
type eCycle2 struct {
	other *eCycle2
	cause bool
}

func (e *eCycle2) Error() string { return "cycle2" }
func (e *eCycle2) Unwrap() error {
	if e.cause {
		return nil
	}
	return e.other
}
func (e *eCycle2) Cause() error {
	if !e.cause {
		return nil
	}
	return e.other
}

// a value (not pointer) type that unwraps to itself: every step yields a fresh interface value
type eValCycle struct{ n [2]int }

func (e eValCycle) Error() string { return "value-cycle" }
func (e eValCycle) Unwrap() error { return e }

type eNum struct{ in error }

func (e *eNum) Error() string { return "num" }
func (e *eNum) Code() uint64  { return 77 }
func (e *eNum) Unwrap() error { return e.in }

type eStr struct{ in error }

func (e *eStr) Error() string { return "str" }
func (e *eStr) Code() string  { return "not_found" }
func (e *eStr) Unwrap() error { return e.in }

type eTypedNil struct{}

func (e *eTypedNil) Error() string { return "typed-nil" }

// builders wrap an inner error (possibly nil) into the next link of a chain
var builders = map[string]func(in error) error{
	"plain":     func(in error) error { return errors.New("plain") },
	"unwrap":    func(in error) error { return &eUnwrap{in} },
	"cause":     func(in error) error { return &eCause{in} },
	"cycle":     func(in error) error { return &eCycle{} },
	"num":       func(in error) error { return &eNum{in} },
	"str":       func(in error) error { return &eStr{in} },
	"typed-nil": func(in error) error { var p *eTypedNil; return &eUnwrap{p} },
	"nil-inner": func(in error) error { return &eUnwrap{nil} },
	"withcode":  func(in error) error { return drpcerr.WithCode(errors.New("wc"), 5) },
	"cycle2": func(in error) error {
		a, b := &eCycle2{}, &eCycle2{}
		a.other, b.other = b, a
		return a
	},
	"cycle2-cause": func(in error) error {
		a, b := &eCycle2{cause: true}, &eCycle2{cause: true}
		a.other, b.other = b, a
		return a
	},
	"value-cycle": func(in error) error { return eValCycle{} },
}

var builderNames = []string{"plain", "unwrap", "cause", "cycle", "num", "str", "typed-nil", "nil-inner", "withcode", "cycle2", "cycle2-cause", "value-cycle"}

// terminalLinks end a chain (nothing behind them is reachable); fatalLinks may take the whole
// process down when mishandled (unbounded recursion is a fatal stack overflow, not a panic), so
// chains ending in them are evaluated in a child process
var terminalLinks = map[string]bool{"plain": true, "cycle": true, "typed-nil": true, "nil-inner": true, "withcode": true, "cycle2": true, "cycle2-cause": true, "value-cycle": true}
var fatalLinks = map[string]bool{"cycle2": true, "cycle2-cause": true, "value-cycle": true}

func buildChain(names []string) error {
	var err error
	for i := len(names) - 1; i >= 0; i-- {
		err = builders[names[i]](err)
	}
	return err
}

type errHandler struct{ err error }

func (h errHandler) HandleRPC(stream drpc.Stream, rpc string) error { return h.err }

func chainCase(names []string) string {
	err := buildChain(names)
	if m := guard("drpcerr.Code", func() { _ = drpcerr.Code(err) }); m != "" {
		return m
	}
	if m := guard("drpcwire.MarshalError", func() { _ = drpcwire.UnmarshalError(drpcwire.MarshalError(err)) }); m != "" {
		return m
	}
	for _, ct := range []string{"application/proto", "application/grpc-web+proto"} {
		if m := guard("drpchttp gateway ("+ct+")", func() {
			req := httptest.NewRequest("POST", "/x", bytes.NewReader(nil))
			req.Header.Set("Content-Type", ct)
			drpchttp.New(errHandler{err}).ServeHTTP(httptest.NewRecorder(), req)
		}); m != "" {
			return m
		}
	}
	return ""
}

type recvHandler struct{ got *int }

func (h recvHandler) HandleRPC(stream drpc.Stream, rpc string) error {
	var in []byte
	if err := stream.MsgRecv(&in, enc.Bytes{}); err != nil {
		return err
	}
	*h.got = len(in)
	return nil
}

// grpc-web request bodies: every flag byte class, declared length vs actual length
func bodyCase(ct string, flag byte, declared uint32, actual int) string {
	hdr := []byte{flag, 0, 0, 0, 0}
	binary.BigEndian.PutUint32(hdr[1:], declared)
	body := append(hdr, make([]byte, actual)...)
	if strings.Contains(ct, "text") {
		body = []byte(base64.StdEncoding.EncodeToString(body))
	}
	var before, after runtime.MemStats
	runtime.ReadMemStats(&before)
	got := -1
	if m := guard("gateway body "+ct, func() {
		req := httptest.NewRequest("POST", "/x", bytes.NewReader(body))
		req.Header.Set("Content-Type", ct)
		drpchttp.New(recvHandler{&got}).ServeHTTP(httptest.NewRecorder(), req)
	}); m != "" {
		return m
	}
	runtime.ReadMemStats(&after)
	if grown := int64(after.TotalAlloc) - int64(before.TotalAlloc); grown > 64<<20 {
		return fmt.Sprintf("handling a %d-byte body declaring %d bytes allocated %d MiB", len(body), declared, grown>>20)
	}
	if got >= 0 && (uint32(got) != declared || int(declared) > actual) {
		return fmt.Sprintf("handler received %d bytes from a body declaring %d and carrying %d", got, declared, actual)
	}
	return ""
}

// lyingLengthCase: a unary (Twirp-style) request that declares a Content-Length far beyond what it
// carries (or beyond the limit): the gateway must not size anything by the declaration.
func lyingLengthCase(ct string, declared int64, actual int) string {
	var before, after runtime.MemStats
	runtime.ReadMemStats(&before)
	got := -1
	if m := guard("gateway twirp body "+ct, func() {
		req := httptest.NewRequest("POST", "/x", bytes.NewReader(make([]byte, actual)))
		if ct != "" {
			req.Header.Set("Content-Type", ct)
		}
		req.ContentLength = declared
		drpchttp.New(recvHandler{&got}).ServeHTTP(httptest.NewRecorder(), req)
	}); m != "" {
		return m
	}
	runtime.ReadMemStats(&after)
	if grown := int64(after.TotalAlloc) - int64(before.TotalAlloc); grown > 32<<20 {
		return fmt.Sprintf("handling a %d-byte body that declares Content-Length %d allocated %d MiB", actual, declared, grown>>20)
	}
	return ""
}

func families(tier string) []seq.Family {
	small := []byte{0x00, 0x01, 0x02, 0x05, 0x0a, 0x12, 0x7f, 0x80, 0xff}
	nRed, nHdr := 7, 5
	if tier == "thorough" {
		nRed, nHdr = 9, 6
	}
	fams := []seq.Family{
		{Name: "UnmarshalError<=3/full", Run: func(ctx *seq.Ctx) {
			enumBytes(ctx, full(), 3, unmarshalErrorCase)
			ctx.Class("error-value")
			ctx.Sample("all byte strings of length <= 3")
		}, Replay: hexReplay(unmarshalErrorCase)},
		{Name: fmt.Sprintf("UnmarshalError<=%d/4sym", nRed+3), Run: func(ctx *seq.Ctx) {
			enumBytes(ctx, []byte{0x00, 0x01, 0x7f, 0xff}, nRed+3, unmarshalErrorCase)
			ctx.Class("error-value")
			ctx.Sample("00 00 00 00 00 00 00 0a 7f")
		}, Replay: hexReplay(unmarshalErrorCase)},
		{Name: "Reader<=2/full", Run: func(ctx *seq.Ctx) {
			enumBytes(ctx, full(), 2, readerCase)
			ctx.Class("returns")
			ctx.Sample("all byte strings of length <= 3")
		}, Replay: hexReplay(readerCase)},
		{Name: fmt.Sprintf("Reader<=%d/9sym", nRed-1), Run: func(ctx *seq.Ctx) {
			enumBytes(ctx, small, nRed-1, readerCase)
			ctx.Class("returns")
			ctx.Sample("05 01 01 80 80 80 80")
		}, Replay: hexReplay(readerCase)},
		{Name: fmt.Sprintf("metadata.Decode<=%d/9sym", nRed), Run: func(ctx *seq.Ctx) {
			enumBytes(ctx, small, nRed, decodeCase)
			ctx.Class("returns")
			ctx.Sample("0a ff ff ff ff 0f 0a")
		}, Replay: hexReplay(decodeCase)},
		{Name: "metadata.Decode/hostile-length-fields", Run: func(ctx *seq.Ctx) {
			s11.HostileLengthInputs(func(b []byte) bool {
				ctx.Count(1, 1, 0)
				if m := decodeCase(b); m != "" {
					return !ctx.Fail(m, map[string]string{"Hex": seq.Hex(b)})
				}
				return true
			})
			ctx.Class("returns")
			ctx.Sample("0a 80 80 80 80 80 80 80 80 80 01")
		}, Replay: hexReplay(decodeCase)},
		{Name: fmt.Sprintf("http-metadata-headers<=%d", nHdr), Run: func(ctx *seq.Ctx) {
			var all []string
			s14.HeaderStrings(s14.HeaderAlphabet, nHdr, func(s string) { all = append(all, s) })
			seq.Parallel(len(all), func(i int) {
				ctx.Count(1, 1, 0)
				if m := headerCase([]string{all[i]}); m != "" {
					ctx.Fail(m+fmt.Sprintf(" header=%q", all[i]), map[string][]string{"headers": {all[i]}})
				}
			})
			short := all
			if len(short) > 800 {
				short = short[:800]
			}
			for _, a := range short[:100] {
				for _, b := range short {
					ctx.Count(1, 1, 0)
					if m := headerCase([]string{a, b}); m != "" {
						ctx.Fail(m, map[string][]string{"headers": {a, b}})
					}
				}
			}
			ctx.Class("returns")
			ctx.Sample([]string{"%", "a=%4"})
		}, Replay: func(in json.RawMessage) string {
			var v struct{ Headers []string }
			_ = json.Unmarshal(in, &v)
			return headerCase(v.Headers)
		}},
		{Name: "hostile-frame-lengths", Run: func(ctx *seq.Ctx) {
			for _, max := range []int{1, 1000, 65536, 4 << 20} {
				for _, declared := range []uint64{uint64(max) + 1, uint64(max) + 100, 1 << 32, 1 << 40, 1<<63 - 1, 1<<64 - 1} {
					ctx.Count(1, 1, 0)
					if m := hostileLengthCase(max, declared, false); m != "" {
						ctx.Fail(m, map[string]any{"max": max, "declared": declared})
					}
				}
			}
			ctx.Class("rejected")
			ctx.Sample(map[string]any{"max": 1000, "declared": "2^40"})
		}, Replay: func(in json.RawMessage) string {
			var v struct {
				Max      int
				Declared uint64
			}
			_ = json.Unmarshal(in, &v)
			return hostileLengthCase(v.Max, v.Declared, false)
		}},
		{Name: "twirp-content-length", Run: func(ctx *seq.Ctx) {
			for _, ct := range []string{"application/proto", "application/json", "", "text/whatever"} {
				for _, declared := range []int64{-1, 0, 1, 3, 4 << 20, 4<<20 + 1, 64 << 20, 1 << 40, 1 << 47, 1 << 62, 1<<63 - 1} {
					for _, actual := range []int{0, 3, 70000} {
						ctx.Count(1, 1, 0)
						m := ""
						if declared > 64<<20 && os.Getenv("VERIF_ISOLATED") == "" {
							// a gateway that trusts the declaration may exhaust memory: fatal, not a panic
							m = seq.RunIsolated("C13", "twirp-content-length", map[string]any{"ct": ct, "declared": declared, "actual": actual})
						} else {
							m = lyingLengthCase(ct, declared, actual)
						}
						if m != "" {
							ctx.Fail(fmt.Sprintf("%s ct=%q declared=%d actual=%d", m, ct, declared, actual), map[string]any{"ct": ct, "declared": declared, "actual": actual})
						}
					}
				}
			}
			ctx.Class("returns")
			ctx.Sample(map[string]any{"declared": "2^62", "actual": 3})
		}, Replay: func(in json.RawMessage) string {
			var v struct {
				CT       string
				Declared int64
				Actual   int
			}
			_ = json.Unmarshal(in, &v)
			return lyingLengthCase(v.CT, v.Declared, v.Actual)
		}},
		{Name: "error-chains<=4", Run: func(ctx *seq.Ctx) {
			depth := 3
			if tier == "thorough" {
				depth = 4
			}
			var rec func(cur []string)
			rec = func(cur []string) {
				if len(cur) > 0 {
					ctx.Count(1, 4, 0)
					var m string
					if fatalLinks[cur[len(cur)-1]] && os.Getenv("VERIF_ISOLATED") == "" {
						m = seq.RunIsolated("C13", "error-chains<=4", map[string][]string{"chain": cur})
					} else {
						m = chainCase(cur)
					}
					if m != "" {
						ctx.Fail(m+" chain="+strings.Join(cur, ">"), map[string][]string{"chain": cur})
					}
				}
				if len(cur) == depth || (len(cur) > 0 && terminalLinks[cur[len(cur)-1]]) {
					return
				}
				for _, n := range builderNames {
					rec(append(append([]string{}, cur...), n))
				}
			}
			rec(nil)
			ctx.Class("returns")
			ctx.Sample("unwrap>cause>nil-inner")
		}, Replay: func(in json.RawMessage) string {
			var v struct{ Chain []string }
			_ = json.Unmarshal(in, &v)
			return chainCase(v.Chain)
		}},
		{Name: "grpc-web-bodies", Run: func(ctx *seq.Ctx) {
			const max = 4 << 20
			for _, ct := range []string{"application/grpc-web+proto", "application/grpc-web-text+proto", "application/grpc-web+json"} {
				for _, flag := range []byte{0, 1, 0x7f, 0x80, 0xff} {
					for _, declared := range []uint32{0, 1, max - 1, max, max + 1, 1<<32 - 1} {
						for _, actual := range []int{0, 1, 5, max} {
							ctx.Count(1, 1, 0)
							if m := bodyCase(ct, flag, declared, actual); m != "" {
								ctx.Fail(fmt.Sprintf("%s ct=%s flag=%#x declared=%d actual=%d", m, ct, flag, declared, actual), map[string]any{"ct": ct, "flag": flag, "declared": declared, "actual": actual})
							}
						}
					}
				}
			}
			ctx.Class("returns")
			ctx.Sample(map[string]any{"flag": 0x80, "declared": 1<<32 - 1, "actual": 5})
		}, Replay: func(in json.RawMessage) string {
			var v struct {
				CT       string
				Flag     byte
				Declared uint32
				Actual   int
			}
			_ = json.Unmarshal(in, &v)
			return bodyCase(v.CT, v.Flag, v.Declared, v.Actual)
		}},
	}
	return fams
}

var _ = context.Background

func init() {
	seq.Register(&seq.Check{ID: "C13", Families: families, Budget: map[string]int{"quick": 120, "thorough": 900},
		Notes: "C13 (sequential part): no-panic / bounded-allocation oracle on UnmarshalError, Reader.ReadPacket and drpcmetadata.Decode over all short byte strings, drpchttp.Context over all short header strings (1-2 headers), error chains of depth <=3 (4) over 12 link kinds (plain, Unwrap, Cause, self-cycle, 2-cycles, value self-cycle, numeric code, string code, typed nil, Unwrap()->nil, WithCode) through drpcerr.Code, MarshalError and the gateway, and grpc-web request bodies with every flag class x declared length {0,1,max-1,max,max+1,2^32-1} x actual length. ParseFrame totality is part of C08. Coverage-guided fuzzing (named in the property text) is a different technique family and is not done."})
}
