// Package c06: after any history of RPCs that have ended, a probe RPC on the same
// (still open) connection reaches its handler and completes.
package c06

import (
	"context"
	"errors"
	"fmt"

	"storj.io/drpc"
	"storj.io/drpc/drpcmetadata"
	"storj.io/drpc/drpcserver"

	"verif/engine/sched"
	"verif/engine/vs"
	"verif/harness/enc"
	"verif/harness/refwire"
	"verif/harness/tr"
	"verif/harness/wl"
	"verif/mc"
)

type cprog struct {
	Unary bool
	Steps string // S send, R recv, C closesend, X recv of a message that fails to decode
	End   string // close | cancel | drain
}

func (p cprog) String() string {
	if p.Unary {
		return "unary/" + p.End
	}
	return "stream(" + p.Steps + ")/" + p.End
}

type hprog struct {
	Steps string // S send, R recv, X recv of a message that fails to decode
	Err   bool
}

func (p hprog) String() string {
	r := "nil"
	if p.Err {
		r = "err"
	}
	return "h(" + p.Steps + ")->" + r
}

var errHandler = errors.New("handler failed")

func runHandler(h hprog) wl.HandlerFunc {
	return func(env *wl.Env, stream drpc.Stream, rpc string) error {
		if len(rpc) >= 6 && rpc[:6] == "/probe" {
			return wl.Echo(stream, rpc)
		}
		for i, s := range h.Steps {
			switch s {
			case 'S':
				out := enc.Payload('h', 1, byte(i), 0+enc.MinPayload)
				if err := stream.MsgSend(&out, enc.Bytes{}); err != nil {
					return err
				}
			case 'R':
				var in []byte
				if err := stream.MsgRecv(&in, enc.Bytes{}); err != nil {
					return err
				}
			case 'X':
				// the application's decoder rejects the message: the RPC ends with that error
				var in []byte
				if err := stream.MsgRecv(&in, enc.FailUnmarshal{}); err != nil {
					return err
				}
			}
		}
		if h.Err {
			return errHandler
		}
		return nil
	}
}

func workload(env *wl.Env, c cprog) {
	ctx, cancel := context.WithCancel(context.Background())
	if c.End == "cancel" {
		// an abandoned call may die between its metadata packet and its invoke
		ctx = drpcmetadata.AddPairs(ctx, map[string]string{"k": "v"})
		vs.Go("canceller", func() { wl.Cancel(cancel) })
	}
	defer func() {
		if c.End == "cancel" {
			wl.Cancel(cancel)
		}
	}()
	if c.Unary {
		in, out := enc.Payload('c', 0, 0, enc.MinPayload), []byte(nil)
		_ = env.Conn.Invoke(ctx, "/w", enc.Bytes{}, &in, &out)
		if c.End != "cancel" {
			cancel() // the call has returned: releasing the context is not a cancellation of a live RPC
		}
		return
	}
	stream, err := env.Conn.NewStream(ctx, "/w", enc.Bytes{})
	if err != nil {
		return
	}
	failed := false
	for i, s := range c.Steps {
		if failed {
			break
		}
		switch s {
		case 'S':
			out := enc.Payload('c', 0, byte(i), enc.MinPayload)
			failed = stream.MsgSend(&out, enc.Bytes{}) != nil
		case 'R':
			var in []byte
			failed = stream.MsgRecv(&in, enc.Bytes{}) != nil
		case 'C':
			failed = stream.CloseSend() != nil
		case 'X':
			var in []byte
			failed = stream.MsgRecv(&in, enc.FailUnmarshal{}) != nil
		}
	}
	switch c.End {
	case "close":
		_ = stream.Close()
	case "drain":
		_ = stream.CloseSend()
		for k := 0; k < 8; k++ {
			var in []byte
			if stream.MsgRecv(&in, enc.Bytes{}) != nil {
				break
			}
		}
		// the RPC has ended on the client (end of stream or error observed)
	case "cancel":
		// deferred cancel
	}
}

func scenario(cfg wl.Config, c cprog, h hprog, variant string) *mc.Scenario {
	name := fmt.Sprintf("probe-after[%s | %s | %s | %s]", cfg, c, h, variant)
	body := func() {
		env := wl.NewEnv(cfg, runHandler(h))
		f := map[string]any{} // live facts; snapshotted into env.Facts before teardown
		f["probe"] = "not-issued"
		doProbe := func() {
			f["closedAtIssue"] = env.ConnClosed()
			f["probe"] = "blocked"
			ok, err := env.Probe("p")
			switch {
			case err != nil:
				f["probe"] = "err"
				f["probeErr"] = err.Error()
				f["closedAtReturn"] = env.ConnClosed()
			case ok:
				f["probe"] = "ok"
			default:
				f["probe"] = "wrong"
			}
		}
		if variant == "A" {
			done := false
			vs.Go("client", func() { workload(env, c); done = true })
			sched.Quiesce()
			f["workloadDone"] = done
			f["handlersActive"] = env.Active
			if done && env.Active == 0 {
				vs.Go("prober", doProbe)
			}
		} else {
			vs.Go("client", func() {
				workload(env, c)
				f["workloadDone"] = true
				doProbe()
			})
		}
		sched.Quiesce()
		f["closedAtEnd"] = env.ConnClosed()
		f["blockedAtEnd"] = wl.BlockedSummary(sched.BlockedNow())
		sched.Observef("probe=%v closed=%v", f["probe"], f["closedAtEnd"])
		for k, v := range f {
			env.Facts[k] = v
		}
		env.Teardown()
	}
	check := func(e *sched.Exec) string {
		if m := wl.Basic(e); m != "" {
			return m
		}
		env := wl.GetEnv(e)
		f := env.Facts
		closedEnd, _ := f["closedAtEnd"].(bool)
		switch f["probe"] {
		case "ok", "not-issued":
			return ""
		case "blocked":
			if !closedEnd {
				return fmt.Sprintf("wedged: probe never completed on a connection that does not report closed; blocked=%v", f["blockedAtEnd"])
			}
			return fmt.Sprintf("probe hangs although the connection reports closed; blocked=%v", f["blockedAtEnd"])
		case "err":
			if cr, _ := f["closedAtReturn"].(bool); !cr && !closedEnd {
				return fmt.Sprintf("probe failed (%v) on a connection that still reports healthy", f["probeErr"])
			}
			return ""
		default:
			return fmt.Sprintf("probe result %v", f["probe"])
		}
	}
	return &mc.Scenario{Name: name, Body: body, Check: check, Model: sched.Deviation, NoCache: true}
}

// chain: RPC A is a stream ended by cancelling its context; RPC B is issued right away on the
// same connection and is itself abandoned by a canceller thread at an arbitrary point - in
// particular while it is still waiting for A's stream to finish (soft cancel) or before its
// invoke is written; then the probe.
func chainScenario(cfg wl.Config, aSteps string, bKind string) *mc.Scenario {
	name := fmt.Sprintf("chain[%s | A=stream(%s)/cancel-inline ; B=%s/cancel-thread ; probe]", cfg, aSteps, bKind)
	body := func() {
		env := wl.NewEnv(cfg, runHandler(hprog{Steps: "R"}))
		f := map[string]any{"probe": "not-issued"}
		vs.Go("client", func() {
			ctxA, cancelA := context.WithCancel(context.Background())
			if sa, err := env.Conn.NewStream(ctxA, "/w", enc.Bytes{}); err == nil {
				for i, st := range aSteps {
					if st == 'S' {
						out := enc.Payload('a', 0, byte(i), enc.MinPayload)
						_ = sa.MsgSend(&out, enc.Bytes{})
					}
				}
			}
			wl.Cancel(cancelA)
			ctxB, cancelB := context.WithCancel(context.Background())
			vs.Go("cancellerB", func() { wl.Cancel(cancelB) })
			if bKind == "unary" {
				in, out := enc.Payload('b', 0, 0, enc.MinPayload), []byte(nil)
				_ = env.Conn.Invoke(ctxB, "/w", enc.Bytes{}, &in, &out)
			} else if sb, err := env.Conn.NewStream(ctxB, "/w", enc.Bytes{}); err == nil {
				out := enc.Payload('b', 0, 0, enc.MinPayload)
				_ = sb.MsgSend(&out, enc.Bytes{})
			}
			wl.Cancel(cancelB)
			f["workloadDone"] = true
			f["probe"] = "blocked"
			sched.Freeze() // both RPCs have ended: the probe runs under the default schedule
			ok, err := env.Probe("p")
			switch {
			case err != nil:
				f["probe"], f["probeErr"], f["closedAtReturn"] = "err", err.Error(), env.ConnClosed()
			case ok:
				f["probe"] = "ok"
			default:
				f["probe"] = "wrong"
			}
		})
		sched.Quiesce()
		f["closedAtEnd"] = env.ConnClosed()
		f["blockedAtEnd"] = wl.BlockedSummary(sched.BlockedNow())
		sched.Observef("probe=%v closed=%v", f["probe"], f["closedAtEnd"])
		for k, v := range f {
			env.Facts[k] = v
		}
		env.Teardown()
	}
	return &mc.Scenario{Name: name, Body: body, Check: probeCheck, Model: sched.Deviation, NoCache: true}
}

func probeCheck(e *sched.Exec) string {
	if m := wl.Basic(e); m != "" {
		return m
	}
	f := wl.GetEnv(e).Facts
	closedEnd, _ := f["closedAtEnd"].(bool)
	switch f["probe"] {
	case "ok", "not-issued":
		return ""
	case "blocked":
		if !closedEnd {
			return fmt.Sprintf("wedged: probe never completed on a connection that does not report closed; blocked=%v", f["blockedAtEnd"])
		}
		return fmt.Sprintf("probe hangs although the connection reports closed; blocked=%v", f["blockedAtEnd"])
	case "err":
		if cr, _ := f["closedAtReturn"].(bool); !cr && !closedEnd {
			return fmt.Sprintf("probe failed (%v) on a connection that still reports healthy", f["probeErr"])
		}
		return ""
	}
	return fmt.Sprintf("probe result %v", f["probe"])
}

func stepStrings(alpha string, maxLen int, atMostOne byte) []string {
	out := []string{""}
	frontier := []string{""}
	for l := 1; l <= maxLen; l++ {
		var next []string
		for _, p := range frontier {
			for i := 0; i < len(alpha); i++ {
				c := alpha[i]
				if c == atMostOne {
					// nothing but receives makes sense after a half-close; keep C last-or-followed-by-R
					has := false
					for j := 0; j < len(p); j++ {
						if p[j] == c {
							has = true
						}
					}
					if has {
						continue
					}
				}
				if atMostOne != 0 && c == 'S' {
					closed := false
					for j := 0; j < len(p); j++ {
						if p[j] == atMostOne {
							closed = true
						}
					}
					if closed {
						continue
					}
				}
				next = append(next, p+string(c))
			}
		}
		out = append(out, next...)
		frontier = next
	}
	return out
}

// pipelinedScenario: a peer that does not wait (a raw client, or a client that closes a stream and
// starts the next call at once) has the packets of two unary RPCs on the wire back to back; the
// first one ends with endFirst. Whatever happens to the first, the second is a well-formed RPC on
// an open connection and must be answered.
func pipelinedScenario(endFirst string, ctlAfter bool) *mc.Scenario {
	name := fmt.Sprintf("pipelined[rpc 1 (invoke, message, %s) and rpc 2 (invoke, message, half-close) arrive back to back; control packet after=%v]", endFirst, ctlAfter)
	body := func() {
		f := map[string]any{}
		sched.Cur().State()["facts"] = f
		var wire []byte
		add := func(kind uint8, sid, mid uint64, data []byte, ctl bool) {
			wire = refwire.Append(wire, refwire.Frame{Data: data, ID: refwire.ID{Stream: sid, Message: mid}, Kind: kind, Done: true, Control: ctl})
		}
		add(1, 1, 1, []byte("/probe/a"), false)
		add(2, 1, 2, []byte("probe-a"), false)
		switch endFirst {
		case "half-close":
			add(6, 1, 3, nil, false)
		case "close":
			add(5, 1, 3, nil, false)
		case "nothing":
		}
		add(1, 2, 1, []byte("/probe/b"), false)
		add(2, 2, 2, []byte("probe-b"), false)
		add(6, 2, 3, nil, false)
		if ctlAfter {
			add(8, 2, 4, []byte("future-extension"), true)
		}
		c, s := tr.New("cli", "srv", tr.Options{Cap: -1})
		srv := drpcserver.New(handlerFunc(func(stream drpc.Stream, rpc string) error { return wl.Echo(stream, rpc) }))
		ctx, cancel := context.WithCancel(context.Background())
		s.InjectInit(wire)
		vs.Go("serveone", func() { _ = srv.ServeOne(ctx, s) })
		sched.Quiesce()
		frames, rest, res := refwire.ParseAll(c.Pending())
		answered := map[uint64]string{}
		for _, fr := range frames {
			if fr.Kind == 2 {
				answered[fr.ID.Stream] += string(fr.Data)
			}
		}
		f["answers"] = fmt.Sprintf("%q", answered)
		switch {
		case res != refwire.OK || len(rest) != 0:
			f["fail"] = "the server's output is not a sequence of whole frames"
		case s.IsClosed() || s.Dead():
			f["fail"] = fmt.Sprintf("the server closed the connection (answers so far %q)", answered)
		case answered[2] != "/probe/b:probe-b":
			f["fail"] = fmt.Sprintf("rpc 2 was not answered on a connection that is still open: answers %q; blocked=%s", answered, wl.BlockedSummary(sched.BlockedNow()))
		}
		// (the first call may legitimately go unanswered: a new invoke ends the stream before it)
		sched.Freeze()
		wl.Cancel(cancel)
		c.EnvClose()
		sched.Quiesce()
	}
	check := func(e *sched.Exec) string {
		if len(e.Panics) > 0 {
			return "panic: " + e.Panics[0]
		}
		f, _ := e.State()["facts"].(map[string]any)
		if m, ok := f["fail"]; ok {
			return m.(string)
		}
		sched.Observef("%v", f["answers"])
		return ""
	}
	return &mc.Scenario{Name: name, Body: body, Check: check, Model: sched.Deviation, NoCache: true}
}

type handlerFunc func(stream drpc.Stream, rpc string) error

func (f handlerFunc) HandleRPC(stream drpc.Stream, rpc string) error { return f(stream, rpc) }

func basePlans(tier string) []mc.Plan {
	k := 1
	if tier == "thorough" {
		k = 2
	}
	var cps []cprog
	for _, end := range []string{"close", "cancel", "drain"} {
		if end != "drain" {
			cps = append(cps, cprog{Unary: true, End: end})
		}
		for _, s := range stepStrings("SRC", k, 'C') {
			cps = append(cps, cprog{Steps: s, End: end})
		}
	}
	var hps []hprog
	for _, s := range stepStrings("SR", k, 0) {
		hps = append(hps, hprog{Steps: s}, hprog{Steps: s, Err: true})
	}
	var ps []mc.Plan
	for _, soft := range []bool{true, false} {
		for _, capacity := range []int{-1, 0} {
			cfg := wl.Config{Soft: soft, Pipe: tr.Options{Cap: capacity}}
			for _, c := range cps {
				if !soft && c.End == "cancel" && tier == "quick" && capacity == 0 {
					continue
				}
				for _, h := range hps {
					for _, v := range []string{"A", "B"} {
						bounds := []int{0, 1}
						small := len(c.Steps) <= 1 && len(h.Steps) <= 1
						if tier == "thorough" && small && soft && capacity == -1 && v == "A" {
							bounds = []int{0, 1, 2}
						}
						ps = append(ps, mc.Plan{Scen: scenario(cfg, c, h, v), Bounds: bounds, Split: len(bounds) > 2})
					}
				}
			}
		}
	}
	// a message that the receiving application fails to decode, on either side, then the RPC ends
	for _, soft := range []bool{true, false} {
		cfg := wl.Config{Soft: soft, Pipe: tr.Options{Cap: -1}}
		type pair struct {
			c cprog
			h hprog
		}
		pairs := []pair{
			{cprog{Unary: true, End: "close"}, hprog{Steps: "X"}},
			{cprog{Steps: "S", End: "close"}, hprog{Steps: "X"}},
			{cprog{Steps: "SS", End: "drain"}, hprog{Steps: "X"}},
			{cprog{Steps: "SS", End: "close"}, hprog{Steps: "RX"}},
			{cprog{Steps: "SX", End: "close"}, hprog{Steps: "RS"}},
			{cprog{Steps: "SX", End: "drain"}, hprog{Steps: "RSS"}},
			{cprog{Steps: "X", End: "cancel"}, hprog{Steps: "SS"}},
		}
		for _, pr := range pairs {
			for _, v := range []string{"A", "B"} {
				ps = append(ps, mc.Plan{Scen: scenario(cfg, pr.c, pr.h, v), Bounds: []int{0, 1}})
			}
		}
	}
	for _, end := range []string{"half-close", "close"} {
		for _, ctl := range []bool{false, true} {
			ps = append(ps, mc.Plan{Scen: pipelinedScenario(end, ctl), Bounds: []int{0, 1, 2}, Split: true})
		}
	}
	// two abandoned RPCs in a row before the probe
	for _, soft := range []bool{true, false} {
		for _, aSteps := range []string{"", "S"} {
			for _, bKind := range []string{"stream", "unary"} {
				cfg := wl.Config{Soft: soft, Pipe: tr.Options{Cap: -1}}
				bounds := []int{0, 1}
				if soft && (bKind == "unary" || tier == "thorough") {
					bounds = []int{0, 1, 2}
				}
				ps = append(ps, mc.Plan{Scen: chainScenario(cfg, aSteps, bKind), Bounds: bounds, Split: len(bounds) > 2})
				if tier == "thorough" && soft {
					ps = append(ps, mc.Plan{Scen: chainScenario(wl.Config{Soft: true, Pipe: tr.Options{Cap: 0}}, aSteps, bKind), Bounds: []int{0, 1, 2}, Split: true})
				}
			}
		}
	}
	return ps
}

// plans adds, to every scenario, a twin explored relative to the reversed default schedule (a
// second reference schedule for the deviation bound).
func plans(tier string) []mc.Plan {
	ps := basePlans(tier)
	if tier == "thorough" {
		return mc.WithReversed(ps, 1)
	}
	return mc.WithReversed(ps, -1)
}

func init() {
	mc.Register(&mc.Check{ID: "C06", Plans: plans, Budget: map[string]int{"quick": 240, "thorough": 2400},
		Notes: "C06: (client program, handler program) pairs followed by a probe RPC; variant A issues the probe after quiescence with the premise (client call returned, handler returned) checked, variant B issues it immediately after the client's last call returns."})
}
