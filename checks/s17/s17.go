// Package s17: C17 - for every service definition the generator accepts, the
// generated file type-checks against the runtime, registers with the mux, uses
// the rpc names the definition implies, and every method round-trips between a
// generated client and a generated server over a real connection.
package s17

import (
	"bufio"
	"bytes"
	"encoding/json"
	"fmt"
	"go/ast"
	"go/parser"
	"go/printer"
	"go/token"
	"os"
	"os/exec"
	"path/filepath"
	"regexp"
	"sort"
	"strconv"
	"strings"
	"sync"

	"google.golang.org/protobuf/proto"
	"google.golang.org/protobuf/reflect/protodesc"
	"google.golang.org/protobuf/types/descriptorpb"
	"google.golang.org/protobuf/types/known/wrapperspb"
	"google.golang.org/protobuf/types/pluginpb"

	"verif/c17rt"
	"verif/seq"
)

// MethodSpec / ServiceSpec / FileSpec describe one generated program.
type MethodSpec struct {
	Name   string
	CS, SS bool
}
type ServiceSpec struct {
	Name    string
	Methods []MethodSpec
}
type FileSpec struct {
	Pkg       string
	Services  []ServiceSpec
	LocalMsgs bool
	// SiblingMsgs: the messages live in a second .proto file with the SAME proto package but a
	// different go_package (compiled only: the echo implementation is not derived for it)
	SiblingMsgs bool
	Protolib    string // "" (google) | "gogo" | "custom"
	NoJSON      bool
}

func (f FileSpec) String() string {
	var ss []string
	for _, s := range f.Services {
		var ms []string
		for _, m := range s.Methods {
			sh := "u"
			switch {
			case m.CS && m.SS:
				sh = "bidi"
			case m.CS:
				sh = "cs"
			case m.SS:
				sh = "ss"
			}
			ms = append(ms, m.Name+":"+sh)
		}
		ss = append(ss, s.Name+"("+strings.Join(ms, ",")+")")
	}
	sib := ""
	if f.SiblingMsgs {
		sib = " messages-in-a-sibling-file(other go package)"
	}
	return fmt.Sprintf("pkg=%q %s local=%v lib=%q json=%v%s", f.Pkg, strings.Join(ss, " "), f.LocalMsgs, f.Protolib, !f.NoJSON, sib)
}

func sp(s string) *string { return &s }
func bp(b bool) *bool     { return &b }
func ip(i int32) *int32   { return &i }

func (f FileSpec) descriptor(idx int) *descriptorpb.FileDescriptorProto {
	fd := &descriptorpb.FileDescriptorProto{
		Name:    sp(fmt.Sprintf("f%d.proto", idx)),
		Syntax:  sp("proto3"),
		Options: &descriptorpb.FileOptions{GoPackage: sp(fmt.Sprintf("genmod/p%d/pb;pb", idx)) /* every generated package is a "package pb" at its own import path, as in real repositories */},
	}
	if f.Pkg != "" {
		fd.Package = sp(f.Pkg)
	}
	in, out := ".google.protobuf.StringValue", ".google.protobuf.StringValue"
	if f.SiblingMsgs {
		prefix := "."
		if f.Pkg != "" {
			prefix = "." + f.Pkg + "."
		}
		in, out = prefix+"Req", prefix+"Resp"
		fd.Dependency = []string{fmt.Sprintf("f%dm.proto", idx)}
	} else if f.LocalMsgs {
		prefix := "."
		if f.Pkg != "" {
			prefix = "." + f.Pkg + "."
		}
		in, out = prefix+"Req", prefix+"Resp"
		lbl, str := descriptorpb.FieldDescriptorProto_LABEL_OPTIONAL, descriptorpb.FieldDescriptorProto_TYPE_STRING
		for _, n := range []string{"Req", "Resp"} {
			fd.MessageType = append(fd.MessageType, &descriptorpb.DescriptorProto{Name: sp(n), Field: []*descriptorpb.FieldDescriptorProto{{Name: sp("value"), Number: ip(1), Label: &lbl, Type: &str, JsonName: sp("value")}}})
		}
	} else {
		fd.Dependency = []string{"google/protobuf/wrappers.proto"}
	}
	for _, s := range f.Services {
		sd := &descriptorpb.ServiceDescriptorProto{Name: sp(s.Name)}
		for _, m := range s.Methods {
			sd.Method = append(sd.Method, &descriptorpb.MethodDescriptorProto{Name: sp(m.Name), InputType: sp(in), OutputType: sp(out), ClientStreaming: bp(m.CS), ServerStreaming: bp(m.SS)})
		}
		fd.Service = append(fd.Service, sd)
	}
	return fd
}

// sibling is the second file of a SiblingMsgs spec: same proto package, its own Go package.
func (f FileSpec) sibling(idx int) *descriptorpb.FileDescriptorProto {
	fd := &descriptorpb.FileDescriptorProto{
		Name:    sp(fmt.Sprintf("f%dm.proto", idx)),
		Syntax:  sp("proto3"),
		Options: &descriptorpb.FileOptions{GoPackage: sp(fmt.Sprintf("genmod/p%d/msgs;msgs", idx))},
	}
	if f.Pkg != "" {
		fd.Package = sp(f.Pkg)
	}
	lbl, str := descriptorpb.FieldDescriptorProto_LABEL_OPTIONAL, descriptorpb.FieldDescriptorProto_TYPE_STRING
	for _, n := range []string{"Req", "Resp"} {
		fd.MessageType = append(fd.MessageType, &descriptorpb.DescriptorProto{Name: sp(n), Field: []*descriptorpb.FieldDescriptorProto{{Name: sp("value"), Number: ip(1), Label: &lbl, Type: &str, JsonName: sp("value")}}})
	}
	return fd
}

func (f FileSpec) expected() []string {
	var out []string
	for _, s := range f.Services {
		full := s.Name
		if f.Pkg != "" {
			full = f.Pkg + "." + s.Name
		}
		for _, m := range s.Methods {
			out = append(out, "/"+full+"/"+m.Name)
		}
	}
	return out
}

func (f FileSpec) param() string {
	var ps []string
	switch f.Protolib {
	case "gogo":
		ps = append(ps, "protolib=github.com/gogo/protobuf")
	case "custom":
		ps = append(ps, "protolib=genmod/customlib")
	}
	if f.NoJSON {
		ps = append(ps, "json=false")
	}
	return strings.Join(ps, ",")
}

func runPlugin(bin string, req *pluginpb.CodeGeneratorRequest) (*pluginpb.CodeGeneratorResponse, error) {
	in, err := proto.Marshal(req)
	if err != nil {
		return nil, err
	}
	cmd := exec.Command(bin)
	cmd.Stdin = bytes.NewReader(in)
	var out, errb bytes.Buffer
	cmd.Stdout, cmd.Stderr = &out, &errb
	if err := cmd.Run(); err != nil {
		return nil, fmt.Errorf("plugin exited: %v: %s", err, errb.String())
	}
	var resp pluginpb.CodeGeneratorResponse
	if err := proto.Unmarshal(out.Bytes(), &resp); err != nil {
		return nil, err
	}
	return &resp, nil
}

// ---- echo implementation derived from the generated file's AST ----

func exprText(fset *token.FileSet, e ast.Expr) string {
	var b bytes.Buffer
	_ = printer.Fprint(&b, fset, e)
	return b.String()
}

func isSel(e ast.Expr, pkgPath, name string, imports map[string]string) bool {
	s, ok := e.(*ast.SelectorExpr)
	if !ok || s.Sel.Name != name {
		return false
	}
	id, ok := s.X.(*ast.Ident)
	return ok && imports[id.Name] == pkgPath
}

// implFor writes zz_impl.go for a generated drpc file: an echo implementation of every server
// interface (shapes read off the generated interfaces) plus the registration with c17rt.
func implFor(pkgName, regName, genPath string, expected []string) (string, error) {
	fset := token.NewFileSet()
	file, err := parser.ParseFile(fset, genPath, nil, 0)
	if err != nil {
		return "", err
	}
	imports := map[string]string{}
	for _, im := range file.Imports {
		p, _ := strconv.Unquote(im.Path.Value)
		name := filepath.Base(p)
		if im.Name != nil {
			name = im.Name.Name
		}
		imports[name] = p
	}
	ifaces := map[string]*ast.InterfaceType{}
	descs := map[string]bool{}
	var ctors, regs []*ast.FuncDecl
	for _, d := range file.Decls {
		switch d := d.(type) {
		case *ast.GenDecl:
			for _, s := range d.Specs {
				if ts, ok := s.(*ast.TypeSpec); ok {
					if it, ok := ts.Type.(*ast.InterfaceType); ok {
						ifaces[ts.Name.Name] = it
					}
				}
			}
		case *ast.FuncDecl:
			if d.Recv != nil {
				if d.Name.Name == "NumMethods" && len(d.Recv.List) == 1 {
					descs[exprText(fset, d.Recv.List[0].Type)] = true
				}
				continue
			}
			ps := d.Type.Params.List
			if len(ps) == 1 && isSel(ps[0].Type, "storj.io/drpc", "Conn", imports) && d.Type.Results != nil && len(d.Type.Results.List) == 1 {
				ctors = append(ctors, d)
			}
			if len(ps) == 2 && isSel(ps[0].Type, "storj.io/drpc", "Mux", imports) {
				regs = append(regs, d)
			}
		}
	}
	used := map[string]bool{}
	noteImports := func(e ast.Expr) {
		ast.Inspect(e, func(n ast.Node) bool {
			if s, ok := n.(*ast.SelectorExpr); ok {
				if id, ok := s.X.(*ast.Ident); ok {
					if _, isImp := imports[id.Name]; isImp {
						used[id.Name] = true
					}
				}
			}
			return true
		})
	}
	streamMethods := func(name string) map[string]*ast.FuncType {
		out := map[string]*ast.FuncType{}
		if it := ifaces[name]; it != nil {
			for _, m := range it.Methods.List {
				if ft, ok := m.Type.(*ast.FuncType); ok && len(m.Names) == 1 {
					out[m.Names[0].Name] = ft
				}
			}
		}
		return out
	}
	elem := func(e ast.Expr) string { return strings.TrimPrefix(exprText(fset, e), "*") }

	var body bytes.Buffer
	var regCalls []string
	for k, r := range regs {
		ifName := exprText(fset, r.Type.Params.List[1].Type)
		it := ifaces[ifName]
		if it == nil {
			return "", fmt.Errorf("server interface %s not found in the generated file", ifName)
		}
		impl := fmt.Sprintf("zzImpl%d", k)
		fmt.Fprintf(&body, "type %s struct{}\n\n", impl)
		for _, m := range it.Methods.List {
			ft, ok := m.Type.(*ast.FuncType)
			if !ok || len(m.Names) != 1 {
				continue
			}
			var params []string
			var ptypes []ast.Expr
			for _, p := range ft.Params.List {
				n := len(p.Names)
				if n == 0 {
					n = 1
				}
				for j := 0; j < n; j++ {
					noteImports(p.Type)
					params = append(params, fmt.Sprintf("a%d %s", len(ptypes), exprText(fset, p.Type)))
					ptypes = append(ptypes, p.Type)
				}
			}
			var results []string
			for _, r := range ft.Results.List {
				noteImports(r.Type)
				results = append(results, exprText(fset, r.Type))
			}
			fmt.Fprintf(&body, "func (%s) %s(%s) (%s) {\n", impl, m.Names[0].Name, strings.Join(params, ", "), strings.Join(results, ", "))
			switch {
			case len(results) == 2: // unary: (ctx, *In) (*Out, error)
				fmt.Fprintf(&body, "\tout := new(%s)\n\tout.Value = a1.Value\n\treturn out, nil\n", elem(ft.Results.List[0].Type))
			default:
				sm := streamMethods(exprText(fset, ptypes[len(ptypes)-1]))
				st := fmt.Sprintf("a%d", len(ptypes)-1)
				switch {
				case len(ptypes) == 2 && sm["Send"] != nil: // server streaming: (*In, stream)
					out := elem(sm["Send"].Params.List[0].Type)
					noteImports(sm["Send"].Params.List[0].Type)
					fmt.Fprintf(&body, "\tfor i := 0; i < 2; i++ {\n\t\tout := new(%s)\n\t\tout.Value = a0.Value\n\t\tif err := %s.Send(out); err != nil {\n\t\t\treturn err\n\t\t}\n\t}\n\treturn nil\n", out, st)
				case len(ptypes) == 1 && sm["Send"] != nil && sm["Recv"] != nil: // bidirectional
					out := elem(sm["Send"].Params.List[0].Type)
					noteImports(sm["Send"].Params.List[0].Type)
					fmt.Fprintf(&body, "\tfor {\n\t\tm, err := %s.Recv()\n\t\tif err != nil {\n\t\t\treturn nil\n\t\t}\n\t\tout := new(%s)\n\t\tout.Value = m.Value\n\t\tif err := %s.Send(out); err != nil {\n\t\t\treturn err\n\t\t}\n\t}\n", st, out, st)
				case len(ptypes) == 1 && sm["SendAndClose"] != nil && sm["Recv"] != nil: // client streaming
					out := elem(sm["SendAndClose"].Params.List[0].Type)
					noteImports(sm["SendAndClose"].Params.List[0].Type)
					fmt.Fprintf(&body, "\tacc := \"\"\n\tfor {\n\t\tm, err := %s.Recv()\n\t\tif err != nil {\n\t\t\tbreak\n\t\t}\n\t\tacc += m.Value\n\t}\n\tout := new(%s)\n\tout.Value = acc\n\treturn %s.SendAndClose(out)\n", st, out, st)
				default:
					return "", fmt.Errorf("server method %s.%s has a shape that is none of unary/client-/server-/bidirectional streaming", ifName, m.Names[0].Name)
				}
			}
			fmt.Fprintf(&body, "}\n\n")
		}
		regCalls = append(regCalls, fmt.Sprintf("func(m zzdrpc.Mux) error { return %s(m, %s{}) }", r.Name.Name, impl))
	}
	var ctorNames, descNames []string
	for _, c := range ctors {
		ctorNames = append(ctorNames, c.Name.Name)
	}
	for d := range descs {
		descNames = append(descNames, d+"{}")
	}
	sort.Strings(descNames)
	var out bytes.Buffer
	fmt.Fprintf(&out, "package %s\n\nimport (\n\tzzdrpc \"storj.io/drpc\"\n\tzzrt \"verif/c17rt\"\n", pkgName)
	var names []string
	for n := range used {
		names = append(names, n)
	}
	sort.Strings(names)
	for _, n := range names {
		fmt.Fprintf(&out, "\t%s %q\n", n, imports[n])
	}
	fmt.Fprintf(&out, ")\n\n%s", body.String())
	fmt.Fprintf(&out, "func init() {\n\tzzrt.Register(zzrt.Package{\n\t\tName: %q,\n\t\tExpected: %#v,\n", regName, expected)
	fmt.Fprintf(&out, "\t\tConstructors: []any{%s},\n", strings.Join(ctorNames, ", "))
	fmt.Fprintf(&out, "\t\tRegistrars: []func(zzdrpc.Mux) error{%s},\n", strings.Join(regCalls, ", "))
	fmt.Fprintf(&out, "\t\tDescriptions: []zzdrpc.Description{%s},\n\t})\n}\n", strings.Join(descNames, ", "))
	return out.String(), nil
}

const customLib = `// Package customlib is a user-supplied protolib for the generator's "custom" mode.
package customlib

import (
	"google.golang.org/protobuf/encoding/protojson"
	"google.golang.org/protobuf/proto"
)

func Marshal(msg interface{}) ([]byte, error)          { return proto.Marshal(msg.(proto.Message)) }
func Unmarshal(buf []byte, msg interface{}) error      { return proto.Unmarshal(buf, msg.(proto.Message)) }
func JSONMarshal(msg interface{}) ([]byte, error)      { return protojson.Marshal(msg.(proto.Message)) }
func JSONUnmarshal(buf []byte, msg interface{}) error  { return protojson.Unmarshal(buf, msg.(proto.Message)) }
`

// ---- enumeration ----

var svcNames = []string{"S", "Foo", "foo_bar", "Foo_Bar"}
var mNames = []string{"M", "Bar", "get_x", "Stream"}
var shapes = [][2]bool{{false, false}, {true, false}, {false, true}, {true, true}}

func specs(tier string) []FileSpec {
	var out []FileSpec
	pkgs := []string{"", "p", "a.b.c"}
	// one service
	for _, pkg := range pkgs {
		for _, sn := range svcNames {
			out = append(out, FileSpec{Pkg: pkg, Services: []ServiceSpec{{Name: sn}}})
			for _, mn := range mNames {
				for _, sh := range shapes {
					out = append(out, FileSpec{Pkg: pkg, Services: []ServiceSpec{{Name: sn, Methods: []MethodSpec{{mn, sh[0], sh[1]}}}}})
				}
			}
			if pkg == "p" || tier == "thorough" {
				for _, a := range shapes {
					for _, b := range shapes {
						out = append(out, FileSpec{Pkg: pkg, Services: []ServiceSpec{{Name: sn, Methods: []MethodSpec{{"M", a[0], a[1]}, {"Bar", b[0], b[1]}}}}})
						if tier == "thorough" {
							out = append(out, FileSpec{Pkg: pkg, Services: []ServiceSpec{{Name: sn, Methods: []MethodSpec{{"get_x", a[0], a[1]}, {"Stream", b[0], b[1]}}}}})
						}
					}
				}
			}
		}
	}
	// messages defined in the same file; other protolibs; json off
	for _, sn := range []string{"Foo", "foo_bar"} {
		all := []MethodSpec{{"M", false, false}, {"Bar", true, false}, {"get_x", false, true}, {"Stream", true, true}}
		for _, v := range []FileSpec{{LocalMsgs: true}, {LocalMsgs: true, NoJSON: true}, {Protolib: "custom"}, {Protolib: "custom", NoJSON: true}, {Protolib: "gogo"}, {Protolib: "gogo", NoJSON: true}, {NoJSON: true}} {
			v.Pkg, v.Services = "lib.x", []ServiceSpec{{Name: sn, Methods: all}}
			out = append(out, v)
		}
	}
	// two services in one file: every ordered pair of names, one streaming method each
	for _, a := range svcNames {
		for _, b := range svcNames {
			if a == b {
				continue
			}
			out = append(out, FileSpec{Pkg: "two", Services: []ServiceSpec{{Name: a, Methods: []MethodSpec{{"M", false, false}}}, {Name: b, Methods: []MethodSpec{{"Bar", false, true}}}}})
			if tier == "thorough" {
				for _, mn := range mNames {
					if mn == "Bar" {
						continue // (the second service already has a method Bar: a duplicate is not a valid definition)
					}
					for _, sh := range shapes[1:] {
						out = append(out, FileSpec{Pkg: "two", Services: []ServiceSpec{{Name: a, Methods: []MethodSpec{{mn, sh[0], sh[1]}}}, {Name: b, Methods: []MethodSpec{{mn, sh[0], sh[1]}, {"Bar", true, true}}}}})
					}
				}
			}
		}
	}
	// messages in a sibling file of the same proto package that is generated into another Go package
	for _, pkg := range []string{"p", "acme.api"} {
		all := []MethodSpec{{"M", false, false}, {"Bar", true, false}, {"get_x", false, true}, {"Stream", true, true}}
		out = append(out, FileSpec{Pkg: pkg, SiblingMsgs: true, Services: []ServiceSpec{{Name: "Foo", Methods: all}}})
	}
	// names whose concatenation with '_' splits ambiguously: Foo + Bar_M  vs  Foo_Bar + M (also a
	// digit after the underscore); the generated identifiers of the two must stay distinct
	for _, amb := range [][4]string{{"Foo", "Bar_M", "Foo_Bar", "M"}, {"S", "V2_Get", "S_V2", "Get"}} {
		for _, sh := range shapes {
			a := ServiceSpec{Name: amb[0], Methods: []MethodSpec{{amb[1], sh[0], sh[1]}}}
			b := ServiceSpec{Name: amb[2], Methods: []MethodSpec{{amb[3], sh[0], sh[1]}}}
			out = append(out, FileSpec{Pkg: "amb", Services: []ServiceSpec{a, b}}, FileSpec{Pkg: "amb", Services: []ServiceSpec{b, a}})
		}
	}
	return out
}

type outcome struct {
	spec FileSpec
	idx  int
	msg  string
	cls  string
}

// RunSpecs generates, compiles and round-trips a batch of specs; it returns one outcome per spec.
func RunSpecs(all []FileSpec) ([]outcome, error) {
	scratch, err := os.MkdirTemp("/var/tmp", "verif-c17-")
	if err != nil {
		return nil, err
	}
	defer os.RemoveAll(scratch)
	env := append(os.Environ(), "GOFLAGS=-mod=mod", "GOPROXY=off", "GOSUMDB=off", "GOTOOLCHAIN=local")
	build := func(dir, out string, pkg string) error {
		cmd := exec.Command("go", "build", "-o", out, pkg)
		cmd.Dir, cmd.Env = dir, env
		if b, err := cmd.CombinedOutput(); err != nil {
			return fmt.Errorf("go build %s: %v: %s", pkg, err, b)
		}
		return nil
	}
	plugin, pgg := filepath.Join(scratch, "protoc-gen-go-drpc"), filepath.Join(scratch, "protoc-gen-go")
	if err := build(repoDir(), plugin, "./cmd/protoc-gen-go-drpc"); err != nil {
		return nil, err
	}
	if err := build(repoDir(), pgg, "google.golang.org/protobuf/cmd/protoc-gen-go"); err != nil {
		return nil, err
	}
	gen := filepath.Join(scratch, "gen")
	_ = os.MkdirAll(filepath.Join(gen, "customlib"), 0o755)
	_ = os.WriteFile(filepath.Join(gen, "customlib", "lib.go"), []byte(customLib), 0o644)
	gomod := "module genmod\n\ngo 1.22.0\n\nrequire (\n\tstorj.io/drpc v0.0.0\n\tverif v0.0.0\n\tgoogle.golang.org/protobuf v1.27.1\n\tgithub.com/gogo/protobuf v1.3.2\n\tgithub.com/zeebo/errs v1.2.2\n)\n\nreplace storj.io/drpc => " + repoDir() + "\n\nreplace verif => " + verifDir() + "\n"
	_ = os.WriteFile(filepath.Join(gen, "go.mod"), []byte(gomod), 0o644)
	if b, err := os.ReadFile(filepath.Join(verifDir(), "go.sum")); err == nil {
		_ = os.WriteFile(filepath.Join(gen, "go.sum"), b, 0o644)
	}
	wrappers := protodesc.ToFileDescriptorProto(wrapperspb.File_google_protobuf_wrappers_proto)

	res := make([]outcome, len(all))
	var mu sync.Mutex
	seq.Parallel(len(all), func(i int) {
		spec := all[i]
		if spec.LocalMsgs || spec.SiblingMsgs {
			// message full names must be unique within the one driver binary (protobuf registry)
			spec.Pkg = fmt.Sprintf("%s.u%d", spec.Pkg, i)
		}
		o := outcome{spec: spec, idx: i}
		defer func() { mu.Lock(); res[i] = o; mu.Unlock() }()
		fd := spec.descriptor(i)
		files := []*descriptorpb.FileDescriptorProto{wrappers, fd}
		if spec.SiblingMsgs {
			files = []*descriptorpb.FileDescriptorProto{wrappers, spec.sibling(i), fd}
		}
		req := &pluginpb.CodeGeneratorRequest{FileToGenerate: []string{fd.GetName()}, ProtoFile: files}
		if p := spec.param(); p != "" {
			req.Parameter = sp(p)
		}
		resp, err := runPlugin(plugin, req)
		if err != nil {
			o.msg, o.cls = "the generator crashed: "+err.Error(), "crash"
			return
		}
		if resp.Error != nil {
			o.cls = "rejected" // the property speaks about definitions the generator accepts
			return
		}
		dir := filepath.Join(gen, fmt.Sprintf("p%d", i), "pb")
		_ = os.MkdirAll(dir, 0o755)
		var drpcFile string
		for _, f := range resp.File {
			p := filepath.Join(dir, filepath.Base(f.GetName()))
			_ = os.WriteFile(p, []byte(f.GetContent()), 0o644)
			drpcFile = p
		}
		if len(spec.Services) == 0 || drpcFile == "" {
			o.cls = "nothing-generated"
			return
		}
		if spec.SiblingMsgs {
			sib := spec.sibling(i)
			r2, err := runPlugin(pgg, &pluginpb.CodeGeneratorRequest{FileToGenerate: []string{sib.GetName()}, ProtoFile: files})
			if err != nil || r2.Error != nil {
				o.msg, o.cls = fmt.Sprintf("HARNESS protoc-gen-go failed: %v %v", err, r2.GetError()), "harness"
				return
			}
			_ = os.MkdirAll(filepath.Join(gen, fmt.Sprintf("p%d", i), "msgs"), 0o755)
			for _, f := range r2.File {
				_ = os.WriteFile(filepath.Join(gen, fmt.Sprintf("p%d", i), "msgs", filepath.Base(f.GetName())), []byte(f.GetContent()), 0o644)
			}
			o.cls = "generated" // compiled only (see below)
			return
		}
		if spec.LocalMsgs {
			r2, err := runPlugin(pgg, &pluginpb.CodeGeneratorRequest{FileToGenerate: []string{fd.GetName()}, ProtoFile: []*descriptorpb.FileDescriptorProto{wrappers, fd}})
			if err != nil || r2.Error != nil {
				o.msg, o.cls = fmt.Sprintf("HARNESS protoc-gen-go failed: %v %v", err, r2.GetError()), "harness"
				return
			}
			for _, f := range r2.File {
				_ = os.WriteFile(filepath.Join(dir, filepath.Base(f.GetName())), []byte(f.GetContent()), 0o644)
			}
		}
		impl, err := implFor("pb", fmt.Sprintf("p%d", i), drpcFile, spec.expected())
		if err != nil {
			o.msg, o.cls = "generated code does not have the documented structure: "+err.Error(), "structure"
			return
		}
		_ = os.WriteFile(filepath.Join(dir, "zz_impl.go"), []byte(impl), 0o644)
		o.cls = "generated"
	})

	// type-check everything in one go; attribute errors to packages
	cmd := exec.Command("go", "build", "./...")
	cmd.Dir, cmd.Env = gen, env
	outB, _ := cmd.CombinedOutput()
	failed := map[int]string{}
	re := regexp.MustCompile(`^p(\d+)/`)
	sc := bufio.NewScanner(bytes.NewReader(outB))
	for sc.Scan() {
		line := strings.TrimSpace(sc.Text())
		if m := re.FindStringSubmatch(line); m != nil {
			n, _ := strconv.Atoi(m[1])
			if _, ok := failed[n]; !ok {
				failed[n] = line
			}
		} else if line != "" && !strings.HasPrefix(line, "#") && !strings.HasPrefix(line, "go: ") && !strings.Contains(line, "too many errors") {
			return nil, fmt.Errorf("HARNESS unexpected build output: %s", line)
		}
	}
	var good []int
	for i := range res {
		if res[i].cls != "generated" {
			continue
		}
		if e, bad := failed[i]; bad {
			res[i].msg, res[i].cls = "the generated file does not type-check: "+e, "type-error"
			continue
		}
		good = append(good, i)
	}
	// gogo-protolib programs are compiled only (their messages are not gogo messages)
	var run []int
	for _, i := range good {
		if all[i].Protolib == "gogo" || all[i].SiblingMsgs {
			res[i].cls = "compiles"
			continue
		}
		run = append(run, i)
	}
	var drv bytes.Buffer
	drv.WriteString("package main\n\nimport (\n\t\"verif/c17rt\"\n")
	for _, i := range run {
		fmt.Fprintf(&drv, "\t_ \"genmod/p%d/pb\"\n", i)
	}
	drv.WriteString(")\n\nfunc main() { c17rt.RunAll() }\n")
	_ = os.MkdirAll(filepath.Join(gen, "cmd", "driver"), 0o755)
	_ = os.WriteFile(filepath.Join(gen, "cmd", "driver", "main.go"), []byte(drv.String()), 0o644)
	bin := filepath.Join(scratch, "driver")
	if err := build(gen, bin, "./cmd/driver"); err != nil {
		return nil, fmt.Errorf("HARNESS driver build: %v", err)
	}
	dcmd := exec.Command(bin)
	var derr bytes.Buffer
	dcmd.Stderr = &derr
	dout, err := dcmd.Output()
	if err != nil {
		tail := derr.String()
		if len(tail) > 1500 {
			tail = tail[:1500]
		}
		if strings.Contains(tail, "panic:") {
			return nil, fmt.Errorf("the process serving and calling the generated services panicked while round-tripping: %s", tail)
		}
		return nil, fmt.Errorf("HARNESS driver run: %v: %s", err, tail)
	}
	seen := map[int]bool{}
	for _, line := range bytes.Split(dout, []byte("\n")) {
		if len(line) == 0 {
			continue
		}
		var r c17rt.Result
		if err := json.Unmarshal(line, &r); err != nil {
			return nil, fmt.Errorf("HARNESS driver output: %s", line)
		}
		n, _ := strconv.Atoi(strings.TrimPrefix(r.Pkg, "p"))
		seen[n] = true
		if r.OK {
			res[n].cls = "round-trips"
		} else {
			res[n].msg, res[n].cls = r.Msg, "runtime"
		}
	}
	for _, i := range run {
		if !seen[i] {
			res[i].msg, res[i].cls = "package did not register with the driver", "runtime"
		}
	}
	return res, nil
}

func repoDir() string {
	if d := os.Getenv("VERIF_REPO"); d != "" {
		return d
	}
	return "/repo"
}

func verifDir() string {
	if d := os.Getenv("VERIF_DIR"); d != "" {
		return d
	}
	return "/verif"
}

func family(tier string) seq.Family {
	return seq.Family{
		Name: "service-definitions",
		Run: func(ctx *seq.Ctx) {
			all := specs(tier)
			res, err := RunSpecs(all)
			if err != nil {
				ctx.Fail(err.Error(), nil)
				return
			}
			for _, o := range res {
				nm := 0
				for _, s := range o.spec.Services {
					nm += len(s.Methods)
				}
				ctx.Count(1, 1+nm, 1)
				ctx.Class(o.cls)
				if o.msg != "" {
					ctx.Fail(o.msg+" | definition: "+o.spec.String(), o.spec)
				}
			}
			ctx.Sample(all[len(all)/2].String())
		},
		Replay: func(in json.RawMessage) string {
			var s FileSpec
			if err := json.Unmarshal(in, &s); err != nil {
				return err.Error()
			}
			res, err := RunSpecs([]FileSpec{s})
			if err != nil {
				return err.Error()
			}
			return res[0].msg
		},
	}
}

func init() {
	seq.Register(&seq.Check{ID: "C17", Families: func(tier string) []seq.Family { return []seq.Family{family(tier)} }, Budget: map[string]int{"quick": 200, "thorough": 1500},
		Notes: "C17: the plugin is built from the working tree and fed CodeGeneratorRequests constructed in-process (no protoc): service definitions over names {S,Foo,foo_bar,Foo_Bar} x methods {M,Bar,get_x,Stream} x the four streaming shapes x proto package {none,p,a.b.c} x one or two services, messages from a well-known import or from the same file (stubs by protoc-gen-go), protolib google/gogo(compile only)/custom, json on/off. Every accepted definition: the output is type-checked (one go build over all packages), an echo server is derived from the generated server interfaces' AST, registered with the real drpcmux, rpc names compared with the definition, and every client stub method round-tripped by reflection over a real drpcconn/drpcserver pair."})
}
