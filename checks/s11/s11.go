// Package s11: C11 (sequential part) - the metadata encoding round-trips every
// map, is the protobuf encoding of a map<string,string> field 1, and decoding
// arbitrary bytes never panics nor yields a map protobuf would not.
package s11

import (
	"context"
	"encoding/json"
	"fmt"
	"reflect"
	"strings"

	"google.golang.org/protobuf/proto"
	"google.golang.org/protobuf/reflect/protodesc"
	"google.golang.org/protobuf/reflect/protoreflect"
	"google.golang.org/protobuf/types/descriptorpb"
	"google.golang.org/protobuf/types/dynamicpb"

	"storj.io/drpc/drpcmetadata"

	"verif/harness/refmeta"
	"verif/seq"
)

// the real protobuf library, through a dynamically built message type
var mapMsg protoreflect.MessageDescriptor

func init() {
	s := func(x string) *string { return &x }
	i32 := func(x int32) *int32 { return &x }
	lbl := descriptorpb.FieldDescriptorProto_LABEL_OPTIONAL
	rep := descriptorpb.FieldDescriptorProto_LABEL_REPEATED
	str := descriptorpb.FieldDescriptorProto_TYPE_STRING
	msg := descriptorpb.FieldDescriptorProto_TYPE_MESSAGE
	t := true
	fd := &descriptorpb.FileDescriptorProto{
		Name: s("meta.proto"), Package: s("verif"), Syntax: s("proto3"),
		MessageType: []*descriptorpb.DescriptorProto{{
			Name:  s("M"),
			Field: []*descriptorpb.FieldDescriptorProto{{Name: s("m"), Number: i32(1), Label: &rep, Type: &msg, TypeName: s(".verif.M.MEntry"), JsonName: s("m")}},
			NestedType: []*descriptorpb.DescriptorProto{{
				Name: s("MEntry"),
				Field: []*descriptorpb.FieldDescriptorProto{
					{Name: s("key"), Number: i32(1), Label: &lbl, Type: &str, JsonName: s("key")},
					{Name: s("value"), Number: i32(2), Label: &lbl, Type: &str, JsonName: s("value")},
				},
				Options: &descriptorpb.MessageOptions{MapEntry: &t},
			}},
		}},
	}
	f, err := protodesc.NewFile(fd, nil)
	if err != nil {
		panic(err)
	}
	mapMsg = f.Messages().Get(0)
}

func pbEncode(m map[string]string) ([]byte, error) {
	msg := dynamicpb.NewMessage(mapMsg)
	mp := msg.Mutable(mapMsg.Fields().Get(0)).Map()
	for k, v := range m {
		mp.Set(protoreflect.ValueOfString(k).MapKey(), protoreflect.ValueOfString(v))
	}
	return proto.MarshalOptions{Deterministic: true}.Marshal(msg)
}

func pbDecode(b []byte) (map[string]string, error) {
	msg := dynamicpb.NewMessage(mapMsg)
	if err := (proto.UnmarshalOptions{DiscardUnknown: false}).Unmarshal(b, msg); err != nil {
		return nil, err
	}
	out := map[string]string{}
	msg.Get(mapMsg.Fields().Get(0)).Map().Range(func(k protoreflect.MapKey, v protoreflect.Value) bool {
		out[k.String()] = v.String()
		return true
	})
	return out, nil
}

func same(a, b map[string]string) bool {
	if len(a) == 0 && len(b) == 0 {
		return true
	}
	return reflect.DeepEqual(a, b)
}

var alphabet = []string{"", "a", "b", strings.Repeat("x", 127), strings.Repeat("y", 128), strings.Repeat("z", 16384), "\x00\xff", "k=v;%"}

func isUTF8Clean(m map[string]string) bool {
	for k, v := range m {
		if strings.Contains(k, "\xff") || strings.Contains(v, "\xff") {
			return false
		}
	}
	return true
}

func mapCase(m map[string]string) string {
	enc, err := drpcmetadata.Encode(nil, m)
	if err != nil {
		return fmt.Sprintf("Encode failed: %v", err)
	}
	got, err := drpcmetadata.Decode(enc)
	if err != nil || !same(got, m) {
		return fmt.Sprintf("Decode(Encode(m)) != m (err=%v, %d vs %d entries)", err, len(got), len(m))
	}
	// the bytes are the protobuf encoding: the independent decoder and the real library read them back
	if rm, err := refmeta.Decode(enc); err != nil || !same(rm, m) {
		return fmt.Sprintf("reference protobuf decoder disagrees on Encode(m): err=%v", err)
	}
	if isUTF8Clean(m) { // proto3 strings must be UTF-8 for the real library
		if pm, err := pbDecode(enc); err != nil || !same(pm, m) {
			return fmt.Sprintf("the protobuf library decodes Encode(m) differently: err=%v", err)
		}
		pb, err := pbEncode(m)
		if err != nil {
			return fmt.Sprintf("HARNESS protobuf marshal: %v", err)
		}
		if dm, err := drpcmetadata.Decode(pb); err != nil || !same(dm, m) {
			return fmt.Sprintf("Decode of the protobuf library's encoding differs: err=%v", err)
		}
		if len(m) <= 1 && string(pb) != string(enc) {
			return "single-entry encoding is not byte-identical to the protobuf library's"
		}
	}
	// what released peers emit (reference encoder, any entry order) decodes to the same map
	if dm, err := drpcmetadata.Decode(refmeta.Encode(m)); err != nil || !same(dm, m) {
		return fmt.Sprintf("Decode of the reference encoding differs: err=%v", err)
	}
	if len(m) <= 1 && string(refmeta.Encode(m)) != string(enc) {
		return "single-entry encoding is not byte-identical to the reference encoding"
	}
	return ""
}

func mapsFamily(maxEntries int) seq.Family {
	return seq.Family{
		Name: fmt.Sprintf("maps<=%d-entries", maxEntries),
		Run: func(ctx *seq.Ctx) {
			n := len(alphabet)
			var rec func(m map[string]string, startKey int, left int) bool
			rec = func(m map[string]string, startKey int, left int) bool {
				ctx.Count(1, 6, 1)
				if msg := mapCase(m); msg != "" {
					if ctx.Fail(msg, m) {
						return false
					}
				}
				if left == 0 || ctx.Expired() {
					return true
				}
				for k := startKey; k < n; k++ {
					for v := 0; v < n; v++ {
						m[alphabet[k]] = alphabet[v]
						ok := rec(m, k+1, left-1)
						delete(m, alphabet[k])
						if !ok {
							return false
						}
					}
				}
				return true
			}
			rec(map[string]string{}, 0, maxEntries)
			ctx.Class("round-trip")
			ctx.Sample(map[string]string{"": "a", "\x00\xff": strings.Repeat("x", 127)})
		},
		Replay: func(in json.RawMessage) string {
			var m map[string]string
			_ = json.Unmarshal(in, &m)
			return mapCase(m)
		},
	}
}

// sizesFamily: every key length and every value length up to 17000 bytes (past the two- and
// three-byte length-prefix boundaries), and the lengths around 2^20 and 2^21.
func sizesFamily(maxLen int) seq.Family {
	mk := func(kl, vl int) map[string]string {
		return map[string]string{strings.Repeat("k", kl): strings.Repeat("v", vl)}
	}
	return seq.Family{
		Name: fmt.Sprintf("all-key/value-lengths<=%d", maxLen),
		Run: func(ctx *seq.Ctx) {
			try := func(kl, vl int) bool {
				ctx.Count(1, 6, 1)
				if msg := mapCase(mk(kl, vl)); msg != "" {
					return !ctx.Fail(msg, [2]int{kl, vl})
				}
				return true
			}
			for l := 0; l <= maxLen && !ctx.Expired(); l++ {
				if !try(1, l) || !try(l, 0) {
					return
				}
			}
			for _, l := range []int{127, 128, 8191, 8192, 16383, 16384, 1<<20 - 1, 1 << 20, 1<<20 + 5, 1<<21 - 1, 1 << 21, 1<<21 + 1} {
				if !try(l, l) || !try(1, l) || !try(l, 1) {
					return
				}
			}
			ctx.Class("round-trip")
			ctx.Sample([2]int{1, 8192})
		},
		Replay: func(in json.RawMessage) string {
			var kv [2]int
			_ = json.Unmarshal(in, &kv)
			return mapCase(mk(kv[0], kv[1]))
		},
	}
}

func decodeCase(b []byte) (msg string, class string) {
	var got map[string]string
	var err error
	func() {
		defer func() {
			if r := recover(); r != nil {
				msg = fmt.Sprintf("Decode panicked: %v", r)
			}
		}()
		got, err = drpcmetadata.Decode(b)
	}()
	if msg != "" {
		return msg, "panic"
	}
	if err != nil {
		return "", "error"
	}
	ref, rerr := refmeta.Decode(b)
	if rerr != nil {
		return fmt.Sprintf("Decode accepted bytes that are not a protobuf map message (reference: %v)", rerr), "map"
	}
	if !same(got, ref) {
		return fmt.Sprintf("Decode returned %v, a protobuf decoder reads %v", got, ref), "map"
	}
	return "", "map"
}

func bytesFamily(name string, alphabet []byte, maxLen int) seq.Family {
	return seq.Family{
		Name: name,
		Run: func(ctx *seq.Ctx) {
			buf := make([]byte, 0, maxLen)
			var rec func() bool
			n := 0
			rec = func() bool {
				msg, class := decodeCase(buf)
				n++
				if n%4096 == 0 {
					ctx.Count(4096, 4096, 4096)
					if ctx.Expired() {
						return false
					}
				}
				if msg != "" {
					if ctx.Fail(msg+" input="+seq.Hex(buf), map[string]string{"hex": seq.Hex(buf)}) {
						return false
					}
				}
				if len(buf) == maxLen {
					ctx.Class(class)
					return true
				}
				for _, a := range alphabet {
					buf = append(buf, a)
					ok := rec()
					buf = buf[:len(buf)-1]
					if !ok {
						return false
					}
				}
				return true
			}
			rec()
			ctx.Count(n%4096, n%4096, n%4096)
			ctx.Sample(map[string]any{"max_len": maxLen, "alphabet_size": len(alphabet)})
		},
		Replay: func(in json.RawMessage) string {
			var v struct{ Hex string }
			_ = json.Unmarshal(in, &v)
			msg, _ := decodeCase(seq.Unhex(v.Hex))
			return msg
		},
	}
}

// HostileLengthInputs enumerates structurally valid metadata whose length fields (entry, key,
// value) are replaced by hostile values, in minimal and in padded (overlong) varint form, followed
// by 0..3 bytes; f returns false to stop.
func HostileLengthInputs(f func(b []byte) bool) {
	varint := func(v uint64, pad int) []byte {
		var b []byte
		for v >= 0x80 {
			b = append(b, byte(v)|0x80)
			v >>= 7
		}
		b = append(b, byte(v))
		for i := 0; i < pad && len(b) < 10; i++ {
			b[len(b)-1] |= 0x80
			b = append(b, 0)
		}
		return b
	}
	vals := []uint64{0, 1, 2, 3, 5, 127, 128, 1<<31 - 1, 1 << 31, 1<<32 - 1, 1 << 32, 1<<63 - 1, 1 << 63, 1<<63 + 5, 1<<64 - 1}
	for _, v := range vals {
		for _, pad := range []int{0, 1, 9} {
			L := varint(v, pad)
			for tail := 0; tail <= 3; tail++ {
				rest := []byte{0x0a, 0x01, 0x6b}[:tail]
				// entry length
				if !f(append(append([]byte{0x0a}, L...), rest...)) {
					return
				}
				// key length inside an entry of plausible size
				inner := append(append([]byte{0x0a}, L...), rest...)
				if !f(append(append([]byte{0x0a}, varint(uint64(len(inner)), 0)...), inner...)) {
					return
				}
				// value length after a one-byte key
				inner = append(append([]byte{0x0a, 0x01, 0x6b, 0x12}, L...), rest...)
				if !f(append(append([]byte{0x0a}, varint(uint64(len(inner)), 0)...), inner...)) {
					return
				}
				// a good entry first, then the hostile one
				good := []byte{0x0a, 0x06, 0x0a, 0x01, 0x61, 0x12, 0x01, 0x62}
				if !f(append(append(append(append([]byte{}, good...), 0x0a), L...), rest...)) {
					return
				}
			}
		}
	}
}

func lengthsFamily() seq.Family {
	return seq.Family{
		Name: "hostile-length-fields",
		Run: func(ctx *seq.Ctx) {
			HostileLengthInputs(func(b []byte) bool {
				ctx.Count(1, 1, 1)
				if msg, _ := decodeCase(b); msg != "" {
					return !ctx.Fail(msg, map[string]string{"Hex": seq.Hex(b)})
				}
				return true
			})
			ctx.Class("rejected-or-agrees")
			ctx.Sample(map[string]string{"Hex": "0a80808080808080808001"})
		},
		Replay: func(in json.RawMessage) string {
			var v struct{ Hex string }
			_ = json.Unmarshal(in, &v)
			msg, _ := decodeCase(seq.Unhex(v.Hex))
			return msg
		},
	}
}

// ---- the context API: what is attached to one call's context stays with that context ----

// apiCase runs a sequence of operations on two call contexts that are built from the SAME caller
// map (contexts derived from a metadata-free parent) and compares with value semantics: a context
// holds a copy of what was attached to it; attaching to one context, or editing the caller's map
// afterwards, changes nothing else; the library never edits the caller's map.
func apiCase(initial map[string]string, ops []string) string {
	caller := map[string]string{}
	for k, v := range initial {
		caller[k] = v
	}
	callerModel := map[string]string{}
	for k, v := range initial {
		callerModel[k] = v
	}
	ctxs := [2]context.Context{context.Background(), context.Background()}
	models := [2]map[string]string{{}, {}}
	for step, op := range ops {
		i := int(op[len(op)-1] - '0')
		switch op[:len(op)-1] {
		case "pairs": // a fresh call context from the shared caller map
			ctxs[i] = drpcmetadata.AddPairs(context.Background(), caller)
			models[i] = map[string]string{}
			for k, v := range callerModel {
				models[i][k] = v
			}
		case "add": // one more pair on that call's context
			k, v := "x", fmt.Sprintf("v%d", step)
			ctxs[i] = drpcmetadata.Add(ctxs[i], k, v)
			models[i][k] = v
		case "over": // overwrite a key the caller map also has
			v := fmt.Sprintf("o%d", step)
			ctxs[i] = drpcmetadata.Add(ctxs[i], "a", v)
			models[i]["a"] = v
		case "mutate": // the caller edits its own map afterwards
			caller["a"], callerModel["a"] = "edited", "edited"
			caller["new"], callerModel["new"] = "n", "n"
		}
	}
	for i := range ctxs {
		got, _ := drpcmetadata.Get(ctxs[i])
		if !same(got, models[i]) {
			return fmt.Sprintf("after %v on a caller map %v: the context of call %d carries %v, what was attached to it is %v", ops, initial, i, got, models[i])
		}
	}
	if !same(caller, callerModel) {
		return fmt.Sprintf("after %v: the caller's own map was changed by the library: %v, the caller made it %v", ops, caller, callerModel)
	}
	return ""
}

func apiFamily(maxLen int) seq.Family {
	alphabet := []string{"pairs0", "pairs1", "add0", "add1", "over0", "over1", "mutate0"}
	type c struct {
		Initial map[string]string
		Ops     []string
	}
	return seq.Family{
		Name: fmt.Sprintf("context-api-sequences<=%d", maxLen),
		Run: func(ctx *seq.Ctx) {
			for _, initial := range []map[string]string{{}, {"a": "1"}, {"a": "1", "b": "2"}} {
				var rec func(cur []string) bool
				rec = func(cur []string) bool {
					ctx.Count(1, len(cur)+2, 1)
					if m := apiCase(initial, cur); m != "" {
						if ctx.Fail(m, c{initial, cur}) {
							return false
						}
					}
					if len(cur) == maxLen {
						return true
					}
					for _, op := range alphabet {
						if !rec(append(append([]string{}, cur...), op)) {
							return false
						}
					}
					return true
				}
				if !rec(nil) {
					return
				}
			}
			ctx.Class("value-semantics")
			ctx.Sample(c{map[string]string{"a": "1"}, []string{"pairs0", "pairs1", "add1"}})
		},
		Replay: func(in json.RawMessage) string {
			var v c
			_ = json.Unmarshal(in, &v)
			return apiCase(v.Initial, v.Ops)
		},
	}
}

func families(tier string) []seq.Family {
	full := make([]byte, 256)
	for i := range full {
		full[i] = byte(i)
	}
	reduced := []byte{0x00, 0x01, 0x02, 0x03, 0x0a, 0x12, 0x61, 0x80, 0xff}
	if tier == "quick" {
		return []seq.Family{mapsFamily(2), bytesFamily("decode-bytes<=3/full", full, 3), bytesFamily("decode-bytes<=7/9sym", reduced, 7), lengthsFamily(), apiFamily(4), sizesFamily(17000)}
	}
	return []seq.Family{mapsFamily(3), bytesFamily("decode-bytes<=3/full", full, 3), bytesFamily("decode-bytes<=8/9sym", reduced, 8), lengthsFamily(), apiFamily(5), sizesFamily(70000)}
}

func init() {
	seq.Register(&seq.Check{ID: "C11", Families: families, Budget: map[string]int{"quick": 60, "thorough": 600},
		Notes: "C11 (sequential part): all maps with <=2 (quick) / <=3 (thorough) entries over an 8-string alphabet (empty, 127/128/16384-byte, binary): Decode(Encode(m)) == m, bytes read back by the reference protobuf decoder and by the real protobuf library through a dynamic map<string,string> message (and vice versa); Decode on ALL short byte strings: no panic, and whenever it returns a map a general protobuf decoder reads the same map."})
}
