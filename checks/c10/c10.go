// Package c10: handler (and dispatcher) errors reach the caller with message and
// code intact, after the messages the handler sent; the connection stays usable.
package c10

import (
	"context"
	"errors"
	"fmt"
	"strings"

	"github.com/zeebo/errs"

	"storj.io/drpc"
	"storj.io/drpc/drpcerr"
	"storj.io/drpc/drpcmux"

	"verif/engine/sched"
	"verif/engine/vs"
	"verif/harness/enc"
	"verif/harness/tr"
	"verif/harness/wl"
	"verif/mc"
)

type unwrapErr struct {
	msg   string
	inner error
}

func (e *unwrapErr) Error() string { return e.msg }
func (e *unwrapErr) Unwrap() error { return e.inner }

type causeErr struct {
	msg   string
	inner error
}

func (e *causeErr) Error() string { return e.msg }
func (e *causeErr) Cause() error  { return e.inner }

var class = errs.Class("appclass")

// build constructs the handler error: base text, optional code, wrapped `wrap`.
func build(text string, code uint64, wrap string) error {
	var err error = errors.New(text)
	if code != 0 {
		err = drpcerr.WithCode(err, code)
	}
	switch wrap {
	case "none":
	case "unwrap1":
		err = &unwrapErr{msg: text, inner: err}
	case "unwrap3":
		err = &unwrapErr{msg: text, inner: &unwrapErr{msg: "mid", inner: &unwrapErr{msg: "low", inner: err}}}
	case "cause":
		err = &causeErr{msg: text, inner: &causeErr{msg: "mid", inner: err}}
	case "errs":
		err = class.Wrap(err)
	}
	return err
}

type spec struct {
	shape string // unary | cstream | sstream | bidi | unknown | undecodable | ok
	text  string
	code  uint64
	wrap  string
	k     int // messages the handler sends before failing (streaming shapes)
	wbuf  int // client and server writer buffer size (0 = default)
	req   int // request payload size (0 = minimal)
}

func textName(t string) string {
	switch {
	case len(t) > 100:
		return fmt.Sprintf("<%d bytes>", len(t))
	default:
		return fmt.Sprintf("%q", t)
	}
}

func (s spec) String() string {
	x := ""
	if s.wbuf != 0 || s.req != 0 {
		x = fmt.Sprintf(" wbuf=%d req=%d", s.wbuf, s.req)
	}
	return fmt.Sprintf("%s msg=%s code=%d wrap=%s k=%d%s", s.shape, textName(s.text), s.code, s.wrap, s.k, x)
}

// a hand-written drpc.Description for the mux scenarios (what generated code provides)
type desc struct{ e drpc.Encoding }

func (desc) NumMethods() int { return 1 }
func (d desc) Method(n int) (string, drpc.Encoding, drpc.Receiver, interface{}, bool) {
	return "/svc/Unary", d.e,
		func(srv interface{}, ctx context.Context, in1, in2 interface{}) (drpc.Message, error) {
			return srv.(*impl).Unary(ctx, in1.(*[]byte))
		}, (*impl).Unary, true
}

type impl struct{ fail error } // fail != nil: the method returns a response AND this error

func (s *impl) Unary(ctx context.Context, in *[]byte) (*[]byte, error) {
	out := append([]byte("re:"), *in...)
	return &out, s.fail
}

func scenario(sp spec) *mc.Scenario {
	name := fmt.Sprintf("error[%s]", sp)
	cfg := wl.Config{Pipe: tr.Options{Cap: -1}, WriterBuf: sp.wbuf}
	body := func() {
		var want error
		handler := func(env *wl.Env, stream drpc.Stream, rpc string) error {
			if strings.HasPrefix(rpc, "/probe") {
				return wl.Echo(stream, rpc)
			}
			switch sp.shape {
			case "unknown", "undecodable", "resp-and-err":
				mux := drpcmux.New()
				var e drpc.Encoding = enc.Bytes{}
				if sp.shape == "undecodable" {
					e = enc.FailUnmarshal{}
				}
				srv := &impl{}
				if sp.shape == "resp-and-err" {
					// a unary method that returns a (partial) response together with its error
					srv.fail = build(sp.text, sp.code, sp.wrap)
				}
				if err := mux.Register(srv, desc{e}); err != nil {
					env.Failf("mux.Register: %v", err)
				}
				ret := mux.HandleRPC(stream, rpc)
				want = ret
				if srv.fail != nil {
					want = srv.fail // what the method returned, whatever the dispatcher made of it
				}
				return ret
			case "ok":
				return wl.Echo(stream, rpc)
			}
			if sp.shape == "unary" || sp.shape == "sstream" {
				var in []byte
				if err := stream.MsgRecv(&in, enc.Bytes{}); err != nil {
					return err
				}
			}
			if sp.shape == "cstream" {
				for {
					var in []byte
					if err := stream.MsgRecv(&in, enc.Bytes{}); err != nil {
						break
					}
				}
			}
			for i := 0; i < sp.k; i++ {
				if sp.shape == "bidi" {
					var in []byte
					if err := stream.MsgRecv(&in, enc.Bytes{}); err != nil {
						return err
					}
				}
				out := enc.Payload('h', 1, byte(i), enc.MinPayload)
				if err := stream.MsgSend(&out, enc.Bytes{}); err != nil {
					return err
				}
			}
			want = build(sp.text, sp.code, sp.wrap)
			return want
		}
		env := wl.NewEnv(cfg, handler)
		var got error
		nrecv := 0
		done := false
		vs.Go("client", func() {
			defer func() { done = true }()
			ctx := context.Background()
			req := enc.Payload('c', 0, 0, max(enc.MinPayload, sp.req))
			switch sp.shape {
			case "unary", "ok":
				var out []byte
				got = env.Conn.Invoke(ctx, "/w", enc.Bytes{}, &req, &out)
				if sp.shape == "ok" && got == nil && string(out) != "/w:"+string(req) {
					env.Failf("unary reply altered")
				}
			case "unknown":
				var out []byte
				got = env.Conn.Invoke(ctx, "/svc/Nope", enc.Bytes{}, &req, &out)
			case "undecodable", "resp-and-err":
				var out []byte
				got = env.Conn.Invoke(ctx, "/svc/Unary", enc.Bytes{}, &req, &out)
			default:
				s, err := env.Conn.NewStream(ctx, "/w", enc.Bytes{})
				if err != nil {
					got = err
					return
				}
				switch sp.shape {
				case "cstream":
					for i := 0; i < 2; i++ {
						o := enc.Payload('c', 0, byte(i), enc.MinPayload)
						if err := s.MsgSend(&o, enc.Bytes{}); err != nil {
							break
						}
					}
					_ = s.CloseSend()
				case "sstream":
					_ = s.MsgSend(&req, enc.Bytes{})
				}
				for i := 0; i < 4; i++ {
					if sp.shape == "bidi" {
						o := enc.Payload('c', 0, byte(i), enc.MinPayload)
						if err := s.MsgSend(&o, enc.Bytes{}); err != nil {
							// a send after the remote error reports end-of-stream; the error itself comes from Recv
							var in []byte
							got = s.MsgRecv(&in, enc.Bytes{})
							break
						}
					}
					var in []byte
					if err := s.MsgRecv(&in, enc.Bytes{}); err != nil {
						got = err
						break
					}
					nrecv++
					if t, d, q, verr := enc.Verify(in); verr != nil || t != 'h' || d != 1 || int(q) != nrecv-1 {
						env.Failf("message %d from the handler altered or out of order", nrecv-1)
					}
				}
				_ = s.Close()
			}
		})
		sched.Quiesce()
		f := map[string]any{"done": done, "got": got, "want": want, "nrecv": nrecv, "blocked": wl.BlockedSummary(sched.BlockedNow())}
		if done {
			probe := "blocked"
			vs.Go("prober", func() {
				if ok, err := env.Probe("p"); err != nil {
					probe = "err: " + err.Error()
				} else if ok {
					probe = "ok"
				}
			})
			sched.Quiesce()
			f["probe"] = probe
		}
		env.Facts["snap"] = f
		sched.Observef("done=%v nrecv=%d err=%v", done, nrecv, got != nil)
		env.Teardown()
	}
	check := func(e *sched.Exec) string {
		if m := wl.Basic(e); m != "" {
			return m
		}
		f := wl.GetEnv(e).Facts["snap"].(map[string]any)
		if d, _ := f["done"].(bool); !d {
			return fmt.Sprintf("the client call never returned; blocked=%v", f["blocked"])
		}
		got, _ := f["got"].(error)
		want, _ := f["want"].(error)
		if sp.shape == "ok" {
			if got != nil {
				return fmt.Sprintf("handler returned a response and nil but the client got %v", got)
			}
		} else {
			if want == nil {
				return "HARNESS handler did not produce an error"
			}
			if got == nil {
				return "handler failed but the client call returned nil"
			}
			wantText, wantCode := want.Error(), sp.code
			if got.Error() != wantText {
				return fmt.Sprintf("error text altered: client %s, handler %s", textName(got.Error()), textName(wantText))
			}
			if c := drpcerr.Code(got); c != wantCode {
				return fmt.Sprintf("error code altered: client %d, handler attached %d", c, wantCode)
			}
			if sp.shape == "sstream" || sp.shape == "bidi" {
				if n := f["nrecv"].(int); n != sp.k {
					return fmt.Sprintf("handler sent %d messages before failing but the client received %d before the error", sp.k, n)
				}
			}
		}
		if p, _ := f["probe"].(string); p != "ok" {
			return fmt.Sprintf("after the failed RPC the connection is not usable: probe=%s", p)
		}
		return ""
	}
	return &mc.Scenario{Name: name, Body: body, Check: check, Model: sched.Deviation, NoCache: true}
}

func basePlans(tier string) []mc.Plan {
	var ps []mc.Plan
	texts := []string{"", "x", "a\x00b\xff\nc\r\n", "100% full %d %s %%", strings.Repeat("long-error-", 6400)}
	codes := []uint64{0, 1, 2, 12, 1 << 32, 1<<64 - 1}
	wraps := []string{"none", "unwrap1", "unwrap3", "cause", "errs"}
	for _, shape := range []string{"unary", "cstream", "sstream", "bidi"} {
		ks := []int{0}
		if shape == "sstream" || shape == "bidi" {
			ks = []int{0, 1, 2}
		}
		for _, t := range texts {
			for _, c := range codes {
				for _, w := range wraps {
					for _, k := range ks {
						bounds := []int{0}
						core := (t == "x" || strings.Contains(t, "%d")) && (c == 0 || c == 12 || c == 1<<64-1) && (w == "none" || w == "unwrap3") && k <= 1
						if core || (tier == "thorough" && len(t) < 100) {
							bounds = []int{0, 1}
						}
						ps = append(ps, mc.Plan{Scen: scenario(spec{shape: shape, text: t, code: c, wrap: w, k: k}), Bounds: bounds})
					}
				}
			}
		}
	}
	// writer buffers so small that every frame is written through, or that frames end exactly at
	// the buffer's edge; and request sizes that make the buffered invoke + message end around the
	// default buffer's edge (whether "nothing is buffered" is known correctly decides what the
	// first receive's flush does)
	for _, wb := range []int{1, 4, 16, 64} {
		for _, shape := range []string{"unary", "cstream", "sstream", "bidi", "ok"} {
			k := 0
			if shape == "sstream" || shape == "bidi" {
				k = 1 // (a unary caller only ever sees the first thing the handler produces)
			}
			ps = append(ps, mc.Plan{Scen: scenario(spec{shape: shape, text: "quota exceeded", code: 1<<63 + 7, wrap: "none", k: k, wbuf: wb}), Bounds: []int{0, 1}})
		}
	}
	for n := 4040; n <= 4110; n++ {
		for _, shape := range []string{"unary", "ok"} {
			ps = append(ps, mc.Plan{Scen: scenario(spec{shape: shape, text: "quota exceeded", code: 1<<63 + 7, wrap: "none", req: n}), Bounds: []int{0}})
		}
	}
	for _, c := range []uint64{0, 7, 1<<64 - 1} {
		for _, w := range []string{"none", "unwrap3", "cause"} {
			ps = append(ps, mc.Plan{Scen: scenario(spec{shape: "resp-and-err", text: "partial result", code: c, wrap: w}), Bounds: []int{0, 1}})
		}
	}
	for _, shape := range []string{"unknown", "undecodable", "ok"} {
		ps = append(ps, mc.Plan{Scen: scenario(spec{shape: shape, wrap: "none"}), Bounds: []int{0, 1}})
	}
	return ps
}

// plans adds, to every scenario, a twin explored relative to the reversed default schedule (a
// second reference schedule for the deviation bound).
func plans(tier string) []mc.Plan {
	ps := basePlans(tier)
	if tier == "thorough" {
		return mc.WithReversed(ps, 1)
	}
	return mc.WithReversed(ps, 1)
}

func init() {
	mc.Register(&mc.Check{ID: "C10", Plans: plans, Budget: map[string]int{"quick": 120, "thorough": 1200},
		Notes: "C10: error text x code x wrapping x RPC shape x messages-before-failing grid at bound 0, the core grid at deviation bound 1; dispatcher failures through the real drpcmux; followed by a probe RPC."})
}
