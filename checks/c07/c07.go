// Package c07: whatever the application does concurrently, the bytes handed to the
// transport form a valid, non-interleaved frame stream, and the transport never
// sees two writes (or two reads) in flight.
package c07

import (
	"context"
	"errors"
	"fmt"
	"io"
	"strings"

	"storj.io/drpc"
	"storj.io/drpc/drpcwire"

	"verif/engine/sched"
	"verif/engine/vs"
	"verif/harness/enc"
	"verif/harness/refwire"
	"verif/harness/tr"
	"verif/harness/wl"
	"verif/mc"
)

// FrameStream checks the C07 clauses on the concatenation of all writes of an end.
func FrameStream(e *tr.End) string {
	var all []byte
	for _, b := range e.Log {
		all = append(all, b...)
	}
	frames, rest, r := refwire.ParseAll(all)
	if r == refwire.Bad {
		return fmt.Sprintf("%s: malformed bytes on the transport after %d whole frames: % x", e.Name, len(frames), rest[:min(len(rest), 24)])
	}
	if len(rest) > 0 {
		return fmt.Sprintf("%s: the write log does not end on a frame boundary (%d trailing bytes): a partial frame was put on the transport", e.Name, len(rest))
	}
	// every individual Write carries whole frames only? (not required: a frame may span writes) -
	// the required clauses are about the stream:
	var prev refwire.ID
	kinds := map[refwire.ID]uint8{}
	done := map[refwire.ID]bool{}
	for i, f := range frames {
		if f.ID.Less(prev) {
			return fmt.Sprintf("%s: frame %d %v has an id below the previous frame's id %v (ids went backwards / streams interleaved)", e.Name, i, f, prev)
		}
		if k, ok := kinds[f.ID]; ok && k != f.Kind {
			return fmt.Sprintf("%s: id %v carries two kinds (%d and %d)", e.Name, f.ID, k, f.Kind)
		}
		if done[f.ID] {
			return fmt.Sprintf("%s: frame %d %v after the final frame of its id", e.Name, i, f)
		}
		kinds[f.ID] = f.Kind
		if f.Done {
			done[f.ID] = true
		}
		prev = f.ID
	}
	// a conforming reader (the real one) never rejects the bytes
	rd := drpcwire.NewReader(&once{b: all})
	for {
		_, err := rd.ReadPacket()
		if err != nil {
			if !errors.Is(err, io.EOF) {
				return fmt.Sprintf("%s: the real drpcwire.Reader rejects the bytes put on the transport: %v", e.Name, err)
			}
			break
		}
	}
	if e.ConcurrentWrites > 0 {
		return fmt.Sprintf("%s: two Transport.Write calls were in flight at once (%d overlapping begins)", e.Name, e.ConcurrentWrites)
	}
	if e.ConcurrentReads > 0 {
		return fmt.Sprintf("%s: two Transport.Read calls were in flight at once", e.Name)
	}
	if e.Closes > 1 {
		return fmt.Sprintf("%s: transport closed %d times", e.Name, e.Closes)
	}
	return ""
}

type once struct{ b []byte }

func (o *once) Read(p []byte) (int, error) {
	if len(o.b) == 0 {
		return 0, io.EOF
	}
	n := copy(p, o.b)
	o.b = o.b[n:]
	return n, nil
}

type spec struct {
	early   bool     // client side: the handler returns at once, so the server half-closes first
	fails   bool     // client side: the handler fails at once, so the server terminates the stream first
	side    string   // "client" | "server"
	actors  []string // S1 S2 CS CL CA NX (client) ; S1 S2 ERR (server)
	stallAt int
	// failOnce k > 0: the client's (k-1)-th transport write returns an error once, nothing of it is
	// accepted, and the transport carries on
	failOnce int
}

func (s spec) String() string {
	e := ""
	if s.early {
		e = " handler-returns-first"
	}
	if s.fails {
		e = " handler-fails-first"
	}
	if s.failOnce > 0 {
		e += fmt.Sprintf(" write#%d-fails-once", s.failOnce-1)
	}
	return fmt.Sprintf("%s actors=%s stall=%d%s", s.side, strings.Join(s.actors, ","), s.stallAt, e)
}

func scenario(cfg wl.Config, sp spec) *mc.Scenario {
	name := fmt.Sprintf("wire[%s | %s]", cfg, sp)
	body := func() {
		handler := func(env *wl.Env, stream drpc.Stream, rpc string) error {
			if sp.early && rpc == "/w" {
				return nil // the server half-closes before the client does anything
			}
			if sp.fails && rpc == "/w" {
				return errors.New("refused") // the server terminates the stream while the client is still sending
			}
			if sp.side == "client" || rpc != "/w" {
				// drain and answer nothing: the subject is what the client writes
				for {
					var in []byte
					if err := stream.MsgRecv(&in, enc.Bytes{}); err != nil {
						return nil
					}
				}
			}
			// server side: concurrent senders inside the handler, then the handler fails
			// without joining them (SendError races their sends)
			var wg vs.WaitGroup
			for _, a := range sp.actors {
				switch a {
				case "S1", "S2":
					a := a
					wg.Add(1)
					vs.Go("h-"+a, func() {
						out := enc.Payload('h', 1, a[1], 11)
						_ = stream.MsgSend(&out, enc.Bytes{})
						wg.Done()
					})
				}
			}
			join := true
			for _, a := range sp.actors {
				if a == "ERR" {
					join = false
				}
			}
			if join {
				wg.Wait()
				return nil
			}
			return errors.New("handler failed while its senders are running")
		}
		env := wl.NewEnv(cfg, handler)
		env.Cli.StallAt = sp.stallAt
		if sp.failOnce > 0 {
			env.Cli.Arm(tr.Fault{Kind: tr.ErrOnce, Write: true, K: sp.failOnce - 1})
		}
		ctx, cancel := context.WithCancel(context.Background())
		vs.Go("client", func() {
			stream, err := env.Conn.NewStream(ctx, "/w", enc.Bytes{})
			if err != nil {
				return
			}
			if sp.side == "server" {
				for {
					var in []byte
					if stream.MsgRecv(&in, enc.Bytes{}) != nil {
						break
					}
				}
				_ = stream.Close()
				// a second RPC after the failed one: its frames must follow the first one's
				in, out := []byte("x"), []byte(nil)
				_ = env.Conn.Invoke(context.Background(), "/w2", enc.Bytes{}, &in, &out)
				return
			}
			for _, a := range sp.actors {
				a := a
				vs.Go("a-"+a, func() {
					switch a {
					case "S1", "S2":
						out := enc.Payload('c', 0, a[1], 11)
						_ = stream.MsgSend(&out, enc.Bytes{})
					case "FL": // an explicit flush (of the still corked invoke, or of what manual flushing holds back)
						if f, ok := stream.(interface{ RawFlush() error }); ok {
							_ = f.RawFlush()
						}
					case "RV": // a receive: it starts with an implicit flush
						var in []byte
						_ = stream.MsgRecv(&in, enc.Bytes{})
					case "CS":
						_ = stream.CloseSend()
					case "CL":
						_ = stream.Close()
					case "CA":
						wl.Cancel(cancel)
					case "NX":
						in, out := []byte("next"), []byte(nil)
						_ = env.Conn.Invoke(context.Background(), "/next", enc.Bytes{}, &in, &out)
					}
				})
			}
		})
		sched.Quiesce()
		if sp.stallAt >= 0 {
			env.Cli.Release()
			sched.Quiesce()
		}
		env.Teardown() // closing is C12's subject; here the teardown runs on the default schedule
		sched.Observef("cli=%d writes srv=%d writes", len(env.Cli.Log), len(env.Srv.Log))
	}
	check := func(e *sched.Exec) string {
		if m := wl.Basic(e); m != "" {
			return m
		}
		env := wl.GetEnv(e)
		if m := FrameStream(env.Cli); m != "" {
			return m
		}
		return FrameStream(env.Srv)
	}
	return &mc.Scenario{Name: name, Body: body, Check: check, Model: sched.Deviation, NoCache: true}
}

func combos(items []string, k int) [][]string {
	var out [][]string
	var rec func(start int, cur []string)
	rec = func(start int, cur []string) {
		if len(cur) == k {
			out = append(out, append([]string{}, cur...))
			return
		}
		for i := start; i < len(items); i++ {
			rec(i+1, append(cur, items[i]))
		}
	}
	rec(0, nil)
	return out
}

// writerScenario: the shared drpcwire.Writer by itself, used by two goroutines at once (it is
// documented as safe for that): every frame handed to it arrives whole, writes never overlap, and
// the bytes of each goroutine's frames are intact.
func writerScenario(size int) *mc.Scenario {
	name := fmt.Sprintf("writer[two goroutines write frames to one drpcwire.Writer of size %d, then flush]", size)
	body := func() {
		c, _ := tr.New("cli", "srv", tr.Options{Cap: -1, TwoStep: true})
		sched.Cur().State()["end"] = c
		w := drpcwire.NewWriter(c, size)
		var wg vs.WaitGroup
		for g := 0; g < 2; g++ {
			g := g
			wg.Add(1)
			vs.Go(fmt.Sprintf("writer%d", g), func() {
				for k := 0; k < 2; k++ {
					data := enc.Payload(byte('a'+g), 0, byte(k), enc.MinPayload)
					_ = w.WriteFrame(drpcwire.Frame{Data: data, ID: drpcwire.ID{Stream: uint64(1 + g), Message: uint64(1 + k)}, Kind: drpcwire.KindMessage, Done: true})
				}
				_ = w.Flush()
				wg.Done()
			})
		}
		wg.Wait()
	}
	check := func(e *sched.Exec) string {
		if len(e.Panics) > 0 {
			return "panic: " + e.Panics[0]
		}
		c := e.State()["end"].(*tr.End)
		var all []byte
		for _, b := range c.Log {
			all = append(all, b...)
		}
		frames, rest, r := refwire.ParseAll(all)
		if r == refwire.Bad || len(rest) > 0 {
			return fmt.Sprintf("the bytes written by the Writer are not whole frames (%d parsed, %d bytes left)", len(frames), len(rest))
		}
		if len(frames) != 4 {
			return fmt.Sprintf("4 frames were handed to the Writer, %d are on the transport", len(frames))
		}
		seen := map[string]bool{}
		for _, f := range frames {
			t, _, q, verr := enc.Verify(f.Data)
			if verr != nil || uint64(t-'a')+1 != f.ID.Stream || uint64(q)+1 != f.ID.Message || seen[string(f.Data)] {
				return fmt.Sprintf("frame %v on the transport is not one of the frames that were written (tag %c seq %d, verify: %v)", f, t, q, verr)
			}
			seen[string(f.Data)] = true
		}
		if c.ConcurrentWrites > 0 {
			return "two Transport.Write calls were in flight at once"
		}
		return ""
	}
	return &mc.Scenario{Name: name, Body: body, Check: check, Model: sched.Preemption}
}

func basePlans(tier string) []mc.Plan {
	var ps []mc.Plan
	two := func(soft bool, split, wb int) wl.Config {
		return wl.Config{Soft: soft, Pipe: tr.Options{Cap: -1, TwoStep: true}, SplitSize: split, WriterBuf: wb}
	}
	cfgs := []wl.Config{two(false, 2, 1), two(true, 2, 1), two(true, 0, 0), two(true, 0, 8)}
	if tier == "thorough" {
		cfgs = append(cfgs, two(false, 2, 8), two(true, 2, 8), two(false, 0, 0))
	}
	for _, size := range []int{1, 20, 64} {
		ps = append(ps, mc.Plan{Scen: writerScenario(size), Bounds: []int{0, 1, 2}})
	}
	clientActors := []string{"S1", "S2", "CS", "CL", "CA", "NX"}
	for _, cfg := range cfgs {
		for k := 2; k <= 3; k++ {
			for _, c := range combos(clientActors, k) {
				bounds := []int{0, 1}
				if k == 2 && (tier == "thorough" || (cfg.SplitSize == 2 && c[0] == "S1")) {
					bounds = []int{0, 1, 2}
				}
				if k == 3 && tier == "thorough" && cfg.SplitSize == 2 && cfg.WriterBuf == 1 {
					bounds = []int{0, 1, 2}
				}
				ps = append(ps, mc.Plan{Scen: scenario(cfg, spec{side: "client", actors: c, stallAt: -1}), Bounds: bounds, Split: len(bounds) > 2})
			}
		}
		// the next RPC is created before the closing actor (so that it is preferred by the default
		// schedule once the stream's bookkeeping says "finished")
		if cfg.SplitSize == 2 && cfg.WriterBuf == 1 && (tier == "thorough" || !cfg.Soft) {
			for _, c := range [][]string{{"S1", "NX", "CL"}, {"S1", "NX", "CS"}} {
				ps = append(ps, mc.Plan{Scen: scenario(cfg, spec{side: "client", actors: c, stallAt: -1}), Bounds: []int{0, 1, 2}, Split: true})
			}
		}
		// the remote half-close arrives first, so the local half-close/close is what terminates the
		// stream; the next RPC is queued ahead of or behind the closing actor
		{ // (with the default writer buffer the invoke itself is still corked when the actors start)
			for i, c := range [][]string{{"S1", "NX", "CS"}, {"S1", "CS", "NX"}, {"S1", "NX", "CL"}, {"S1", "S2", "NX", "CS"}, {"NX", "CS"}, {"CS", "CA", "NX"}, {"CS", "NX", "CL"}, {"CS", "CL", "NX"}} {
				b2 := []int{0, 1}
				if i == 0 && tier == "thorough" {
					b2 = []int{0, 1, 2}
				}
				ps = append(ps, mc.Plan{Scen: scenario(cfg, spec{side: "client", actors: c, stallAt: -1, early: true}), Bounds: b2, Split: len(b2) > 2})
			}
		}
		// a flush (explicit, or the one a receive starts with) racing sends on the same stream: with the
		// default writer buffer the invoke is still corked when the actors start
		if cfg.WriterBuf == 0 {
			for _, c := range [][]string{{"FL", "S1"}, {"S1", "FL"}, {"RV", "S1"}, {"FL", "S1", "S2"}, {"FL", "S1", "CL"}, {"RV", "S1", "NX"}, {"FL", "RV", "S1"}} {
				ps = append(ps, mc.Plan{Scen: scenario(cfg, spec{side: "client", actors: c, stallAt: -1}), Bounds: []int{0, 1}})
			}
		}
		// the peer terminates the stream while a send is between two of its transport writes (a writer
		// buffer that frames do not fill evenly); the next RPC must still start on a frame boundary
		for _, c := range [][]string{{"S1", "NX"}, {"S1", "S2", "NX"}, {"S1", "CL", "NX"}} {
			ps = append(ps, mc.Plan{Scen: scenario(cfg, spec{side: "client", actors: c, stallAt: -1, fails: true}), Bounds: []int{0, 1}})
		}
		// a transport write that fails once (the transport carries on): what is handed to the transport
		// afterwards must still continue the frame stream, not repeat or go back in it
		for k := 1; k <= 3; k++ {
			for _, c := range [][]string{{"S1", "S2"}, {"S1", "CS"}, {"S1", "CL"}, {"FL", "S1"}, {"S1", "NX"}} {
				ps = append(ps, mc.Plan{Scen: scenario(cfg, spec{side: "client", actors: c, stallAt: -1, failOnce: k}), Bounds: []int{0, 1}})
			}
		}
		if tier == "thorough" {
			for _, c := range combos(clientActors, 4) {
				ps = append(ps, mc.Plan{Scen: scenario(cfg, spec{side: "client", actors: c, stallAt: -1}), Bounds: []int{0, 1}})
			}
			for _, j := range []int{0, 1, 2, 3} {
				for _, c := range [][]string{{"S1", "CL"}, {"S1", "CA"}, {"S1", "S2", "CA"}, {"S1", "CS", "NX"}, {"CL", "CA", "NX"}} {
					ps = append(ps, mc.Plan{Scen: scenario(cfg, spec{side: "client", actors: c, stallAt: j}), Bounds: []int{0, 1}})
				}
			}
		}
		for _, c := range [][]string{{"S1", "S2"}, {"S1", "ERR"}, {"S1", "S2", "ERR"}} {
			bounds := []int{0, 1}
			if tier == "thorough" || (cfg.SplitSize == 2 && !cfg.Soft && len(c) == 2) {
				bounds = []int{0, 1, 2}
			}
			ps = append(ps, mc.Plan{Scen: scenario(cfg, spec{side: "server", actors: c, stallAt: -1}), Bounds: bounds, Split: len(bounds) > 2})
		}
	}
	return ps
}

// plans adds, to every scenario, a twin explored relative to the reversed default schedule (a
// second reference schedule for the deviation bound).
func plans(tier string) []mc.Plan {
	ps := basePlans(tier)
	if tier == "thorough" {
		return mc.WithReversed(ps, 1)
	}
	return mc.WithReversed(ps, -1)
}

func init() {
	mc.Register(&mc.Check{ID: "C07", Plans: plans, Budget: map[string]int{"quick": 240, "thorough": 1800},
		Notes: "C07: 2-3 (thorough 4) concurrent actors (two multi-frame senders, half-close, close, context cancel, next RPC) on one client stream, and concurrent handler senders racing SendError on the server; every Transport.Write has a begin and an end scheduling point; oracle: the write log parses into whole frames with non-decreasing ids, one kind per id, nothing after a final frame, accepted by the real reader; never two writes or two reads in flight; at most one Close."})
}
