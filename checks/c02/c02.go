// Package c02: RPCs on one reused connection are isolated from each other.
package c02

import (
	"context"
	"errors"
	"fmt"
	"strings"

	"storj.io/drpc"
	"storj.io/drpc/drpcmetadata"

	"verif/engine/sched"
	"verif/engine/vs"
	"verif/harness/enc"
	"verif/harness/tr"
	"verif/harness/wl"
	"verif/mc"
)

// rpcSpec describes one RPC of a history.
type rpcSpec struct {
	Kind    string // "U" unary | "S" streaming | "R" streaming, the client receives with RawRecv and keeps the returned bytes
	End     string // U: "ok" | "cancel" ; S: "close" | "cancel" | "drain" | "closecancel" (ends by itself just as its context is cancelled)
	Handler string // "echo" | "send2" | "err" | "early" | "recv2"
}

func (r rpcSpec) String() string { return r.Kind + "/" + r.End + "/" + r.Handler }

func tagOf(i int) byte { return byte('A' + i) }

func handlerFor(specs []rpcSpec) wl.HandlerFunc {
	return func(env *wl.Env, stream drpc.Stream, rpc string) error {
		var i int
		if _, err := fmt.Sscanf(rpc, "/r%d", &i); err != nil || i >= len(specs) {
			env.Failf("handler entered with unknown rpc %q", rpc)
			return errors.New("unknown")
		}
		tag := tagOf(i)
		if md, ok := drpcmetadata.Get(stream.Context()); ok {
			if want := fmt.Sprintf("%c", tag); md["owner"] != want || len(md) != 1 {
				env.Failf("CROSSTALK: handler of %s sees metadata %v attached to another RPC", rpc, md)
			}
		} else if specs[i].End == "cancel" {
			env.Failf("handler of %s does not see the metadata its caller attached", rpc)
		}
		recv := func() error {
			var in []byte
			if err := stream.MsgRecv(&in, enc.Bytes{}); err != nil {
				return err
			}
			t, _, _, verr := enc.Verify(in)
			if verr != nil {
				env.Failf("handler %s received a corrupted message: %v", rpc, verr)
			} else if t != tag {
				env.Failf("CROSSTALK: handler of %s received a message tagged %c", rpc, t)
			}
			return nil
		}
		send := func(seq byte) error {
			out := enc.Payload(tag, 1, seq, enc.MinPayload)
			return stream.MsgSend(&out, enc.Bytes{})
		}
		switch specs[i].Handler {
		case "echo":
			if err := recv(); err != nil {
				return err
			}
			return send(0)
		case "send2":
			if err := send(0); err != nil {
				return err
			}
			return send(1)
		case "recv2":
			if err := recv(); err != nil {
				return err
			}
			if err := recv(); err != nil {
				return err
			}
			return send(0)
		case "err":
			return fmt.Errorf("err-%c", tag)
		case "early":
			return nil
		}
		return nil
	}
}

// checkReply validates a message received by the client side of RPC i.
func checkReply(env *wl.Env, i int, in []byte) {
	t, d, _, verr := enc.Verify(in)
	switch {
	case verr != nil:
		env.Failf("client of r%d received a corrupted message: %v", i, verr)
	case len(in) == 0:
		env.Failf("client of r%d received an empty message nobody sent", i)
	case t != tagOf(i) || d != 1:
		env.Failf("CROSSTALK: client of r%d received a message tagged %c dir %d", i, t, d)
	}
}

// checkErr validates an error observed by RPC i: a handler-originated error must be its own.
func checkErr(env *wl.Env, i int, err error) {
	if err == nil {
		return
	}
	if s := err.Error(); strings.Contains(s, "err-") {
		if !strings.Contains(s, fmt.Sprintf("err-%c", tagOf(i))) {
			env.Failf("CROSSTALK: r%d observed the error of another RPC: %v", i, err)
		}
	}
}

// runRPC performs RPC i of the history on the connection; victim RPCs (not ended
// by the client, echo handler) must succeed unless the connection is closed.
func runRPC(env *wl.Env, i int, sp rpcSpec) {
	ctx, cancel := context.WithCancel(context.Background())
	name := fmt.Sprintf("/r%d", i)
	if sp.End == "cancel" {
		// abandoned RPCs carry metadata: it must never surface in another RPC
		ctx = drpcmetadata.AddPairs(ctx, map[string]string{"owner": fmt.Sprintf("%c", tagOf(i))})
		vs.Go(fmt.Sprintf("canceller%d", i), func() { wl.Cancel(cancel) })
	}
	req := enc.Payload(tagOf(i), 0, 0, enc.MinPayload)
	mustSucceed := (sp.End == "ok" || sp.End == "drain") && (sp.Handler == "echo")
	fail := func(what string, err error) {
		checkErr(env, i, err)
		if mustSucceed {
			// judged at final quiescence: a connection-level error is a legitimate outcome, and the
			// Closed() channel may lag the error by a step (the signal's value is published before
			// its channel is closed)
			pend, _ := env.Facts["pending"].([]string)
			env.Facts["pending"] = append(pend, fmt.Sprintf("r%d (%s) was not ended by its caller and its handler is well-behaved, but %s failed with %v and the connection never reported closed: another RPC changed its outcome", i, sp, what, err))
		}
	}
	if sp.Kind == "U" {
		var out []byte
		err := env.Conn.Invoke(ctx, name, enc.Bytes{}, &req, &out)
		if err != nil {
			fail("Invoke", err)
		} else {
			checkReply(env, i, out)
			if sp.Handler == "err" {
				env.Failf("r%d: handler returned an error but Invoke returned nil", i)
			}
		}
		sched.Observef("r%d:%v", i, err == nil)
		if sp.End != "cancel" {
			cancel()
		}
		return
	}
	stream, err := env.Conn.NewStream(ctx, name, enc.Bytes{})
	if err != nil {
		fail("NewStream", err)
		sched.Observef("r%d:nostream", i)
		return
	}
	nrecv := 0
	if err := stream.MsgSend(&req, enc.Bytes{}); err != nil {
		fail("MsgSend", err)
	} else if sp.Handler != "recv2" {
		for k := 0; k < 3; k++ {
			var in []byte
			var err error
			if rr, ok := stream.(interface{ RawRecv() ([]byte, error) }); ok && sp.Kind == "R" {
				in, err = rr.RawRecv()
				if err == nil {
					// the caller owns what RawRecv returns: it is looked at again when the whole history is over
					kept, _ := env.Facts["kept"].([]keptReply)
					env.Facts["kept"] = append(kept, keptReply{i, in})
				}
			} else {
				err = stream.MsgRecv(&in, enc.Bytes{})
			}
			if err != nil {
				checkErr(env, i, err)
				if k == 0 {
					fail("MsgRecv", err)
				}
				break
			}
			nrecv++
			checkReply(env, i, in)
			if sp.End != "drain" {
				break
			}
		}
	}
	sched.Observef("r%d:recv%d", i, nrecv)
	switch sp.End {
	case "close":
		_ = stream.Close()
	case "closecancel":
		_ = stream.Close()
		wl.Cancel(cancel)
	case "drain":
		_ = stream.CloseSend()
		for k := 0; k < 4; k++ {
			var in []byte
			if err := stream.MsgRecv(&in, enc.Bytes{}); err != nil {
				checkErr(env, i, err)
				break
			}
			checkReply(env, i, in)
		}
		_ = stream.Close()
		cancel()
	case "cancel":
		wl.Cancel(cancel)
	case "cancelzombie":
		// the RPC is cancelled, but one of the application's goroutines has not noticed yet and keeps
		// sending on the dead stream (every such send fails) while the next RPC runs
		wl.Cancel(cancel)
		vs.Go(fmt.Sprintf("zombie%d", i), func() {
			for k := 0; k < 2; k++ {
				out := enc.Payload(tagOf(i), 0, byte(8+k), enc.MinPayload)
				_ = stream.MsgSend(&out, enc.Bytes{})
			}
		})
	}
}

// keptReply is a reply obtained through RawRecv that its RPC kept.
type keptReply struct {
	rpc  int
	data []byte
}

func history(cfg wl.Config, specs []rpcSpec) *mc.Scenario {
	var names []string
	for _, s := range specs {
		names = append(names, s.String())
	}
	name := fmt.Sprintf("history[%s | %s]", cfg, strings.Join(names, " ; "))
	body := func() {
		env := wl.NewEnv(cfg, handlerFor(specs))
		done := false
		vs.Go("client", func() {
			for i, sp := range specs {
				runRPC(env, i, sp)
			}
			done = true
		})
		sched.Quiesce()
		if !done {
			env.Facts["hung"] = wl.BlockedSummary(sched.BlockedNow())
		}
		if pend, _ := env.Facts["pending"].([]string); len(pend) > 0 && !env.ConnClosed() {
			env.Failf("%s", pend[0])
		}
		// replies kept from RawRecv still are what their RPC received, whatever came after
		kept, _ := env.Facts["kept"].([]keptReply)
		for _, k := range kept {
			if t, d, _, verr := enc.Verify(k.data); verr != nil || t != tagOf(k.rpc) || d != 1 {
				env.Failf("CROSSTALK: a reply r%d obtained through RawRecv and kept by the caller reads differently after later traffic on the connection (tag %c dir %d, verify: %v)", k.rpc, t, d, verr)
			}
		}
		env.Teardown()
	}
	check := func(e *sched.Exec) string {
		if m := wl.Basic(e); m != "" {
			return m
		}
		if h, ok := wl.GetEnv(e).Facts["hung"]; ok {
			return fmt.Sprintf("client sequence never finished; blocked=%v", h)
		}
		return ""
	}
	return &mc.Scenario{Name: name, Body: body, Check: check, Model: sched.Deviation, NoCache: true}
}

// concurrent: n goroutines issue unary calls concurrently on one Conn.
func concurrent(cfg wl.Config, n int, withCancel bool) *mc.Scenario {
	specs := make([]rpcSpec, n)
	for i := range specs {
		specs[i] = rpcSpec{Kind: "U", End: "ok", Handler: "echo"}
	}
	if withCancel {
		specs[0].End = "cancel"
	}
	name := fmt.Sprintf("concurrent[%s | callers=%d cancel0=%v]", cfg, n, withCancel)
	body := func() {
		env := wl.NewEnv(cfg, handlerFor(specs))
		finished := 0
		for i := range specs {
			i := i
			vs.Go(fmt.Sprintf("caller%d", i), func() { runRPC(env, i, specs[i]); finished++ })
		}
		sched.Quiesce()
		if finished != n {
			env.Facts["hung"] = wl.BlockedSummary(sched.BlockedNow())
		}
		if pend, _ := env.Facts["pending"].([]string); len(pend) > 0 && !env.ConnClosed() {
			env.Failf("%s", pend[0])
		}
		env.Teardown()
	}
	check := func(e *sched.Exec) string {
		if m := wl.Basic(e); m != "" {
			return m
		}
		if h, ok := wl.GetEnv(e).Facts["hung"]; ok {
			return fmt.Sprintf("concurrent callers never finished; blocked=%v", h)
		}
		return ""
	}
	return &mc.Scenario{Name: name, Body: body, Check: check, Model: sched.Deviation, NoCache: true}
}

func basePlans(tier string) []mc.Plan {
	var ps []mc.Plan
	firsts := []rpcSpec{
		{"U", "ok", "echo"}, {"U", "ok", "err"}, {"U", "ok", "early"}, {"U", "ok", "send2"},
		{"U", "cancel", "echo"}, {"U", "cancel", "send2"}, {"U", "cancel", "recv2"},
		{"S", "close", "echo"}, {"S", "close", "send2"}, {"S", "close", "recv2"}, {"S", "close", "early"}, {"S", "close", "err"},
		{"S", "cancel", "echo"}, {"S", "cancel", "send2"}, {"S", "cancel", "recv2"},
		{"S", "drain", "echo"}, {"S", "drain", "send2"}, {"S", "drain", "err"}, {"S", "drain", "early"},
	}
	victims := []rpcSpec{{"U", "ok", "echo"}, {"S", "drain", "echo"}}
	cfgs := []wl.Config{{Soft: true, Pipe: tr.Options{Cap: -1}}, {Soft: false, Pipe: tr.Options{Cap: -1}}}
	tiny := wl.Config{Soft: true, Pipe: tr.Options{Cap: -1}, SplitSize: 3, WriterBuf: 1} // every message is several frames, each its own write
	if tier == "thorough" {
		cfgs = append(cfgs, wl.Config{Soft: true, Pipe: tr.Options{Cap: 0}}, wl.Config{Soft: true, Pipe: tr.Options{Cap: -1, ReadMax: 1}, SplitSize: 3, WriterBuf: 1}, tiny)
	} else {
		// a message interrupted between two of its frames when its RPC ends: the leftover frames must
		// not leak into the next RPC
		for _, f := range []rpcSpec{{"S", "close", "send2"}, {"S", "cancel", "send2"}, {"S", "close", "recv2"}, {"U", "cancel", "echo"}, {"S", "drain", "err"}} {
			for _, v := range victims {
				sc := history(tiny, []rpcSpec{f, v})
				// (both reference schedules: the reversed one lets the peer run ahead of a preempted sender)
				ps = append(ps, mc.Plan{Scen: sc, Bounds: []int{0, 1}}, mc.Plan{Scen: sc.Reversed(), Bounds: []int{0, 1}})
			}
		}
	}
	ps = append(ps, mc.Plan{Scen: slowMarshal(tiny), Bounds: []int{0, 1}})
	for _, cfg := range []wl.Config{{Pipe: tr.Options{Cap: -1}}, tiny} {
		ps = append(ps, mc.Plan{Scen: slowUnmarshal(cfg), Bounds: []int{0, 1}})
	}
	// bytes returned by RawRecv belong to the caller, also after the next RPC's packets have arrived
	for _, cfg := range []wl.Config{{Soft: true, Pipe: tr.Options{Cap: -1}}, tiny} {
		for _, second := range []rpcSpec{{"U", "ok", "echo"}, {"R", "drain", "send2"}} {
			ps = append(ps, mc.Plan{Scen: history(cfg, []rpcSpec{{"R", "drain", "send2"}, second}), Bounds: []int{0, 1}})
		}
	}
	// a goroutine that keeps sending on an RPC that has already been cancelled must not disturb the next
	// RPC's (multi-frame) messages
	for _, v := range []rpcSpec{{"S", "drain", "echo"}} {
		sc := history(tiny, []rpcSpec{{"S", "cancelzombie", "echo"}, v})
		ps = append(ps, mc.Plan{Scen: sc, Bounds: []int{0, 1}}, mc.Plan{Scen: sc.Reversed(), Bounds: []int{0, 1}})
	}
	// an RPC that ends by itself just as its context is cancelled must not make the connection deaf
	// to the cancellation of a later RPC (whose stream the next call waits for)
	for _, soft := range []bool{false, true} {
		for _, second := range []rpcSpec{{"S", "cancel", "recv2"}, {"U", "cancel", "recv2"}} {
			sc := history(wl.Config{Soft: soft, Pipe: tr.Options{Cap: -1}}, []rpcSpec{{"S", "closecancel", "echo"}, second, {"U", "ok", "echo"}})
			ps = append(ps, mc.Plan{Scen: sc, Bounds: []int{0, 1}}, mc.Plan{Scen: sc.Reversed(), Bounds: []int{0, 1}})
		}
	}
	for _, cfg := range cfgs {
		for _, f := range firsts {
			for _, v := range victims {
				bounds := []int{0, 1}
				if cfg.Soft && cfg.Pipe.Cap == -1 && cfg.SplitSize == 0 && f.End == "cancel" && (tier == "thorough" || (f.Kind == "U" && v.Kind == "U" && f.Handler == "echo")) {
					bounds = []int{0, 1, 2}
				}
				ps = append(ps, mc.Plan{Scen: history(cfg, []rpcSpec{f, v}), Bounds: bounds, Split: len(bounds) > 2})
			}
		}
		for _, n := range []int{2, 3} {
			for _, wc := range []bool{false, true} {
				bounds := []int{0, 1}
				if tier == "thorough" && n == 2 {
					bounds = []int{0, 1, 2}
				}
				ps = append(ps, mc.Plan{Scen: concurrent(cfg, n, wc), Bounds: bounds, Split: len(bounds) > 2})
			}
		}
	}
	if tier == "thorough" {
		// three-RPC histories: two disturbed RPCs followed by a victim
		for _, cfg := range cfgs[:2] {
			ends := []rpcSpec{{"U", "cancel", "echo"}, {"S", "close", "send2"}, {"S", "cancel", "recv2"}, {"U", "ok", "err"}, {"S", "drain", "early"}}
			for _, a := range ends {
				for _, b := range ends {
					for _, v := range victims {
						ps = append(ps, mc.Plan{Scen: history(cfg, []rpcSpec{a, b, v}), Bounds: []int{0, 1}})
					}
				}
			}
		}
	}
	return ps
}

// slowMarshal: a call is held inside its (user-supplied, slow) encoder after it has obtained its
// stream; it is abandoned (soft cancel, the connection survives) and the next call starts on the
// same connection with its multi-frame request parked in the transport after the first frame;
// then the abandoned call's encoder finishes. Whatever it still does must not change what the
// next call sends.
func slowMarshal(cfg wl.Config) *mc.Scenario {
	// call 0 is an ordinary completed call (the connection's buffers have been used once)
	specs := []rpcSpec{{"U", "ok", "echo"}, {"U", "cancel", "echo"}, {"U", "ok", "echo"}}
	name := fmt.Sprintf("slow-marshal[%s | call 0 completes ; abandoned call 1 held in its encoder ; call 2 parked after its first frame]", cfg)
	body := func() {
		env := wl.NewEnv(cfg, handlerFor(specs))
		gate := &enc.Gate{}
		ctx1, cancel1 := context.WithCancel(drpcmetadata.AddPairs(context.Background(), map[string]string{"owner": "B"}))
		done := 0
		vs.Go("caller0", func() { runRPC(env, 0, specs[0]); done++ })
		sched.Quiesce()
		vs.Go("caller1", func() {
			req := enc.Payload(tagOf(1), 0, 0, enc.MinPayload)
			var out []byte
			err := env.Conn.Invoke(ctx1, "/r1", enc.Slow{G: gate}, &req, &out)
			checkErr(env, 1, err)
			sched.Observef("r1:%v", err == nil)
			done++
		})
		sched.Quiesce()
		wl.Cancel(cancel1)
		sched.Quiesce()
		env.Cli.StallAt = env.Cli.Writes() + 2
		vs.Go("caller2", func() { runRPC(env, 2, specs[2]); done++ })
		sched.Quiesce()
		gate.Open()
		sched.Quiesce()
		env.Cli.Release()
		sched.Quiesce()
		if done != 3 {
			env.Facts["hung"] = wl.BlockedSummary(sched.BlockedNow())
		}
		if pend, _ := env.Facts["pending"].([]string); len(pend) > 0 && !env.ConnClosed() {
			env.Failf("%s", pend[0])
		}
		env.Teardown()
	}
	check := func(e *sched.Exec) string {
		if m := wl.Basic(e); m != "" {
			return m
		}
		if h, ok := wl.GetEnv(e).Facts["hung"]; ok {
			return fmt.Sprintf("callers never finished; blocked=%v", h)
		}
		return ""
	}
	return &mc.Scenario{Name: name, Body: body, Check: check, Model: sched.Deviation, NoCache: true}
}

// slowUnmarshal: the handler of call 0 receives in a goroutine of its own, whose (user-supplied,
// slow) decoder is still looking at the message bytes when the handler returns; the client goes on
// to call 1 on the same connection; then the decoder finishes. What it decodes must be call 0's
// message, whatever has arrived on the connection in the meantime.
func slowUnmarshal(cfg wl.Config) *mc.Scenario {
	name := fmt.Sprintf("slow-unmarshal[%s | handler of call 0 returns while its receiver goroutine is inside the decoder ; call 1 on the same connection ; decoder finishes]", cfg)
	body := func() {
		gate, arrived := &enc.Gate{}, &enc.Gate{}
		decoded := false
		h := func(env *wl.Env, stream drpc.Stream, rpc string) error {
			check := func(in []byte, want byte) {
				t, _, _, verr := enc.Verify(in)
				if verr != nil {
					env.Failf("handler %s received a corrupted message: %v", rpc, verr)
				} else if t != want {
					env.Failf("CROSSTALK: handler of %s received a message tagged %c", rpc, t)
				}
			}
			if rpc == "/r0" {
				vs.Go("r0-receiver", func() {
					var in []byte
					if err := stream.MsgRecv(&in, enc.SlowU{G: gate, Arrived: arrived}); err == nil {
						check(in, tagOf(0))
						decoded = true
					}
				})
				arrived.Wait()
				return nil
			}
			var in []byte
			if err := stream.MsgRecv(&in, enc.Bytes{}); err != nil {
				return err
			}
			check(in, tagOf(1))
			out := enc.Payload(tagOf(1), 1, 0, enc.MinPayload)
			return stream.MsgSend(&out, enc.Bytes{})
		}
		env := wl.NewEnv(cfg, h)
		done := false
		vs.Go("caller", func() {
			defer func() { done = true }()
			s, err := env.Conn.NewStream(context.Background(), "/r0", enc.Bytes{})
			if err != nil {
				return
			}
			req := enc.Payload(tagOf(0), 0, 0, enc.MinPayload)
			if err := s.MsgSend(&req, enc.Bytes{}); err != nil {
				return
			}
			var in []byte
			_ = s.MsgRecv(&in, enc.Bytes{}) // end of stream: the handler returned
			_ = s.Close()
			runRPC(env, 1, rpcSpec{"U", "ok", "echo"})
		})
		sched.Quiesce()
		gate.Open()
		sched.Quiesce()
		if !done {
			env.Facts["hung"] = wl.BlockedSummary(sched.BlockedNow())
		}
		sched.Observef("decoded=%v", decoded)
		if pend, _ := env.Facts["pending"].([]string); len(pend) > 0 && !env.ConnClosed() {
			env.Failf("%s", pend[0])
		}
		env.Teardown()
	}
	check := func(e *sched.Exec) string {
		if m := wl.Basic(e); m != "" {
			return m
		}
		if h, ok := wl.GetEnv(e).Facts["hung"]; ok {
			return fmt.Sprintf("the caller never finished; blocked=%v", h)
		}
		return ""
	}
	return &mc.Scenario{Name: name, Body: body, Check: check, Model: sched.Deviation, NoCache: true}
}

// plans adds, to every scenario, a twin explored relative to the reversed default schedule (a
// second reference schedule for the deviation bound).
func plans(tier string) []mc.Plan {
	ps := basePlans(tier)
	if tier == "thorough" {
		return mc.WithReversed(ps, 1)
	}
	return mc.WithReversed(ps, -1)
}

func init() {
	mc.Register(&mc.Check{ID: "C02", Plans: plans, Budget: map[string]int{"quick": 240, "thorough": 1800},
		Notes: "C02: histories of 2-3 tagged RPCs on one connection; every payload/error observed by RPC r must carry r's tag; an RPC not ended by its caller with a well-behaved handler must succeed unless the connection reports closed."})
}
