// Package c04: cancelling an RPC's context unblocks every operation of that RPC.
package c04

import (
	"context"
	"errors"
	"fmt"
	"strings"

	"storj.io/drpc"

	"verif/engine/sched"
	"verif/engine/vs"
	"verif/harness/enc"
	"verif/harness/tr"
	"verif/harness/wl"
	"verif/mc"
)

type opRes struct {
	name       string
	returned   bool
	beforeCanc bool // returned before the cancel was issued (variant q)
	err        error
}

type spec struct {
	stalled bool     // client transport writes park forever (until released at the very end)
	handler string   // flowing only: "silent" | "recv" | "flood" | "echo"
	ops     []string // operations started in this order, each on its own goroutine
	variant string   // "q": cancel after quiescence; "r": canceller races the operations
	prelude bool     // an earlier RPC on the connection ended by itself just as its context was cancelled
}

func (s spec) String() string {
	t := "flowing/" + s.handler
	if s.stalled {
		t = "stalled"
	}
	if s.prelude {
		t = "after a cleanly cancelled rpc, " + t
	}
	return fmt.Sprintf("%s ops=%s %s", t, strings.Join(s.ops, ","), s.variant)
}

func handlerFor(kind string) wl.HandlerFunc {
	return func(env *wl.Env, stream drpc.Stream, rpc string) error {
		if strings.HasPrefix(rpc, "/probe") {
			return wl.Echo(stream, rpc)
		}
		defer func() {
			// (5) once the handler's operations have been failed by the cancellation, its stream context is done
			if !vs.IsClosed(stream.Context().Done()) {
				// the operation may fail slightly before the context is marked done (the stream finishes
				// when the failing call returns); wait for it: it must become done without anybody's help
				vs.Recv(stream.Context().Done())
			}
		}()
		switch kind {
		case "silent":
			vs.Recv(stream.Context().Done())
			return stream.Context().Err()
		case "recv":
			for {
				var in []byte
				if err := stream.MsgRecv(&in, enc.Bytes{}); err != nil {
					return err
				}
			}
		case "flood":
			for i := 0; i < 4; i++ {
				out := enc.Payload('h', 1, byte(i), enc.MinPayload)
				if err := stream.MsgSend(&out, enc.Bytes{}); err != nil {
					return err
				}
			}
			vs.Recv(stream.Context().Done())
			return stream.Context().Err()
		default: // echo loop
			for {
				var in []byte
				if err := stream.MsgRecv(&in, enc.Bytes{}); err != nil {
					return err
				}
				if err := stream.MsgSend(&in, enc.Bytes{}); err != nil {
					return err
				}
			}
		}
	}
}

func scenario(cfg wl.Config, sp spec) *mc.Scenario {
	name := fmt.Sprintf("cancel[%s | %s]", cfg, sp)
	body := func() {
		env := wl.NewEnv(cfg, handlerFor(sp.handler))
		if sp.stalled {
			env.Cli.StallInit()
		}
		if sp.prelude {
			// the RPC under test is not the first on its connection: the one before it finished by
			// itself at the moment its context was cancelled
			pctx, pcancel := context.WithCancel(context.Background())
			if s, err := env.Conn.NewStream(pctx, "/pre", enc.Bytes{}); err == nil {
				_ = s.Close()
				wl.Cancel(pcancel)
			}
		}
		ctx, cancel := context.WithCancel(context.Background())
		res := make([]*opRes, len(sp.ops))
		var stream drpc.Stream
		needStream := false
		for _, o := range sp.ops {
			if o != "invoke" {
				needStream = true
			}
		}
		if needStream {
			s, err := env.Conn.NewStream(ctx, "/w", enc.Bytes{})
			if err != nil {
				env.Failf("NewStream failed before any cancel: %v", err)
				return
			}
			stream = s
		}
		for i, o := range sp.ops {
			r := &opRes{name: o}
			res[i] = r
			o := o
			vs.Go("op-"+o, func() {
				switch o {
				case "send", "send2":
					out := enc.Payload('c', 0, 0, enc.MinPayload)
					r.err = stream.MsgSend(&out, enc.Bytes{})
				case "recv":
					var in []byte
					r.err = stream.MsgRecv(&in, enc.Bytes{})
				case "close":
					r.err = stream.Close()
				case "closesend":
					r.err = stream.CloseSend()
				case "invoke":
					in, out := enc.Payload('c', 0, 0, enc.MinPayload), []byte(nil)
					r.err = env.Conn.Invoke(ctx, "/w", enc.Bytes{}, &in, &out)
				case "next":
					s2, err := env.Conn.NewStream(context.Background(), "/w2", enc.Bytes{})
					r.err = err
					if s2 != nil {
						_ = s2.Close()
					}
				}
				r.returned = true
			})
		}
		if sp.variant == "q" {
			sched.Quiesce()
			for _, r := range res {
				r.beforeCanc = r.returned
			}
			wl.Cancel(cancel)
		} else {
			vs.Go("canceller", func() { wl.Cancel(cancel) })
		}
		sched.Quiesce()
		f := env.Facts
		f["blocked1"] = wl.BlockedSummary(sched.BlockedNow())
		var stuck []string
		for _, r := range res {
			if !r.returned {
				stuck = append(stuck, r.name)
			}
		}
		f["stuck"] = stuck
		f["res"] = res
		f["handlersActive"] = env.Active
		// (3) later operations fail instead of blocking
		if stream != nil && len(stuck) == 0 {
			var lsend, lrecv error
			lateDone := false
			vs.Go("late", func() {
				out := enc.Payload('c', 0, 9, enc.MinPayload)
				lsend = stream.MsgSend(&out, enc.Bytes{})
				var in []byte
				lrecv = stream.MsgRecv(&in, enc.Bytes{})
				lateDone = true
			})
			sched.Quiesce()
			f["lateDone"], f["lateSend"], f["lateRecv"] = lateDone, lsend, lrecv
			f["blocked2"] = wl.BlockedSummary(sched.BlockedNow())
		}
		// (4) the connection is usable or reports closed (the transport is allowed to move again)
		if sp.stalled {
			env.Cli.Release()
			sched.Quiesce()
		}
		if len(stuck) == 0 {
			if lateDone, ok := f["lateDone"].(bool); !ok || lateDone {
				closed := env.ConnClosed()
				f["closed"] = closed
				if !closed {
					probe := "blocked"
					vs.Go("prober", func() {
						if ok, err := env.Probe("p"); err != nil {
							probe = "err: " + err.Error()
						} else if ok {
							probe = "ok"
						}
					})
					sched.Quiesce()
					if probe != "ok" && env.ConnClosed() {
						probe = "closed"
					}
					f["probe"] = probe
					f["blocked3"] = wl.BlockedSummary(sched.BlockedNow())
				}
			}
		}
		f["handlersActiveEnd"] = env.Active
		f["blockedEnd"] = wl.BlockedSummary(sched.BlockedNow())
		snap := map[string]any{}
		for k, v := range f {
			snap[k] = v
		}
		f["snap"] = snap
		sched.Observef("stuck=%v closed=%v probe=%v", stuck, f["closed"], f["probe"])
		env.Teardown()
	}
	check := func(e *sched.Exec) string {
		if m := wl.Basic(e); m != "" {
			return m
		}
		env := wl.GetEnv(e)
		f, _ := env.Facts["snap"].(map[string]any)
		if f == nil {
			return ""
		}
		if stuck := f["stuck"].([]string); len(stuck) > 0 {
			return fmt.Sprintf("(1) still blocked after the context was cancelled: ops=%v blocked=%v", stuck, f["blocked1"])
		}
		res := f["res"].([]*opRes)
		silent := sp.stalled || sp.handler == "silent"
		// a local Close (or, for sends, a local half-close) issued concurrently races the cancellation
		// for being the stream's termination cause (first cause wins, C03): with one in the set the
		// identity clause is relaxed to "fails"
		hasClose, hasHalf := false, false
		for _, r := range res {
			if r.name == "close" {
				hasClose = true
			}
			if r.name == "closesend" {
				hasHalf = true
			}
		}
		for _, r := range res {
			afterClose := hasClose || (hasHalf && (r.name == "send" || r.name == "send2"))
			if sp.variant != "q" || r.beforeCanc || !silent {
				continue
			}
			if afterClose {
				if r.err == nil && (r.name == "recv" || r.name == "send" || r.name == "send2") {
					return fmt.Sprintf("(2) blocked %s returned nil after close+cancel", r.name)
				}
				continue
			}
			// the call was parked when the cancel happened and the peer never answers
			switch r.name {
			case "recv", "invoke":
				if r.err != context.Canceled {
					return fmt.Sprintf("(2) blocked %s must report the context's error, got %v", r.name, r.err)
				}
			case "send", "send2":
				if r.err == nil {
					return fmt.Sprintf("(2) blocked %s returned nil after cancel", r.name)
				}
				if !cfg.Soft && r.err != context.Canceled {
					return fmt.Sprintf("(2) blocked %s must report the context's error in the default cancel mode, got %v", r.name, r.err)
				}
			}
		}
		if ld, ok := f["lateDone"].(bool); ok {
			if !ld {
				return fmt.Sprintf("(3) a send/receive issued after the cancel blocks; blocked=%v", f["blocked2"])
			}
			if f["lateSend"] == nil {
				return "(3) a send issued after the cancel succeeded"
			}
			if f["lateRecv"] == nil {
				return "(3) a receive issued after the cancel succeeded"
			}
		}
		unread := strings.Contains(fmt.Sprint(f["blockedEnd"]), "manageReader@Cond.Wait")
		if p, ok := f["probe"].(string); ok && p != "ok" && p != "closed" && !(unread && p == "blocked") {
			return fmt.Sprintf("(4) after the cancel the connection neither reports closed nor serves a new RPC: probe=%s blocked=%v", p, f["blocked3"])
		}
		if !sp.stalled {
			// premise of (5): the cancellation/disconnect has been read by the peer. While the peer's
			// reader is parked handing an unread message to a handler that is not receiving, nothing
			// more is read from the transport (single-slot lending by design), so the premise is unmet.
			if n, _ := f["handlersActiveEnd"].(int); n != 0 && !unread {
				return fmt.Sprintf("(5) the peer handler is still running although the cancellation reached the peer; blocked=%v", f["blockedEnd"])
			}
		}
		return ""
	}
	return &mc.Scenario{Name: name, Body: body, Check: check, Model: sched.Deviation, NoCache: true}
}

func subsets(ops []string, maxK int) [][]string {
	var out [][]string
	var rec func(cur []string, used []bool)
	rec = func(cur []string, used []bool) {
		if len(cur) > 0 {
			out = append(out, append([]string{}, cur...))
		}
		if len(cur) == maxK {
			return
		}
		for i, o := range ops {
			if used[i] {
				continue
			}
			used[i] = true
			rec(append(cur, o), used)
			used[i] = false
		}
	}
	rec(nil, make([]bool, len(ops)))
	return out
}

// queuedScenario: one RPC is in flight with a silent peer and stays so; a second call on the same
// connection (from another goroutine, with its own context) waits for its turn; that context is
// cancelled. The queued call must return with its context's error - without any cooperation from
// the peer, the transport or the first RPC - and the first RPC must be undisturbed.
func queuedScenario(soft bool, first, second, variant string) *mc.Scenario {
	cfg := wl.Config{Soft: soft, Pipe: tr.Options{Cap: -1}}
	name := fmt.Sprintf("cancel-queued[%s | rpc 1 %s in flight with a silent peer ; rpc 2 %s queued behind it, its own context cancelled %s]", cfg, first, second, variant)
	body := func() {
		env := wl.NewEnv(cfg, handlerFor("silent"))
		f := map[string]any{}
		env.Facts["q"] = f
		ctx1, cancel1 := context.WithCancel(context.Background())
		firstDone := false
		vs.Go("first", func() {
			in, out := enc.Payload('a', 0, 0, enc.MinPayload), []byte(nil)
			if first == "invoke" {
				_ = env.Conn.Invoke(ctx1, "/w", enc.Bytes{}, &in, &out)
			} else if s, err := env.Conn.NewStream(ctx1, "/w", enc.Bytes{}); err == nil {
				_ = s.MsgRecv(&out, enc.Bytes{})
			}
			firstDone = true
		})
		sched.Quiesce() // rpc 1 is in flight: its handler is running and silent
		ctx2, cancel2 := context.WithCancel(context.Background())
		var err2 error
		secondDone := false
		vs.Go("second", func() {
			in, out := enc.Payload('b', 0, 0, enc.MinPayload), []byte(nil)
			if second == "invoke" {
				err2 = env.Conn.Invoke(ctx2, "/w2", enc.Bytes{}, &in, &out)
			} else {
				_, err2 = env.Conn.NewStream(ctx2, "/w2", enc.Bytes{})
			}
			secondDone = true
		})
		if variant == "q" {
			sched.Quiesce()
			wl.Cancel(cancel2)
		} else {
			vs.Go("canceller", func() { wl.Cancel(cancel2) })
		}
		sched.Quiesce()
		switch {
		case !secondDone:
			f["fail"] = "(1) the queued call is still blocked after its context was cancelled; blocked=" + wl.BlockedSummary(sched.BlockedNow())
		case err2 == nil:
			f["fail"] = "the queued call succeeded although rpc 1 still occupies the connection"
		case !errors.Is(err2, context.Canceled):
			f["fail"] = fmt.Sprintf("(2) the queued call must report its context's error, got %v", err2)
		case firstDone && !env.ConnClosed():
			f["fail"] = "rpc 1 ended although only rpc 2's context was cancelled"
		}
		sched.Observef("second=%v first=%v", secondDone, firstDone)
		sched.Freeze()
		wl.Cancel(cancel1)
		env.Teardown()
	}
	check := func(e *sched.Exec) string {
		if m := wl.Basic(e); m != "" {
			return m
		}
		f, _ := wl.GetEnv(e).Facts["q"].(map[string]any)
		if m, ok := f["fail"]; ok {
			return m.(string)
		}
		return ""
	}
	return &mc.Scenario{Name: name, Body: body, Check: check, Model: sched.Deviation, NoCache: true}
}

func basePlans(tier string) []mc.Plan {
	var ps []mc.Plan
	maxK := 2
	if tier == "thorough" {
		maxK = 3
	}
	streamOps := []string{"send", "send2", "recv", "close", "closesend", "next"}
	for _, soft := range []bool{false, true} {
		for _, stalled := range []bool{true, false} {
			handlers := []string{""}
			if !stalled {
				handlers = []string{"silent", "recv", "flood", "echo"}
			}
			for _, h := range handlers {
				capacity := -1
				if h == "flood" {
					capacity = 0
				}
				cfg := wl.Config{Soft: soft, Pipe: tr.Options{Cap: capacity}}
				var sets [][]string
				sets = append(sets, []string{"invoke"})
				if tier == "quick" && !stalled && h != "silent" {
					// the flowing non-silent handlers get the singletons and a few pairs
					sets = append(sets, subsets([]string{"send", "recv", "close"}, 2)...)
				} else {
					sets = append(sets, subsets(streamOps, maxK)...)
				}
				for _, ops := range sets {
					for _, v := range []string{"q", "r"} {
						bounds := []int{0, 1}
						if tier == "thorough" && (len(ops) <= 1 || (stalled && len(ops) == 2)) {
							bounds = []int{0, 1, 2}
						}
						if tier == "thorough" && len(ops) == 3 && v == "r" {
							bounds = []int{0, 1}
						}
						ps = append(ps, mc.Plan{Scen: scenario(cfg, spec{stalled: stalled, handler: h, ops: ops, variant: v}), Bounds: bounds, Split: len(bounds) > 2})
					}
				}
			}
		}
	}
	for _, soft := range []bool{false, true} {
		for _, first := range []string{"invoke", "stream"} {
			for _, second := range []string{"invoke", "newstream"} {
				for _, v := range []string{"q", "r"} {
					ps = append(ps, mc.Plan{Scen: queuedScenario(soft, first, second, v), Bounds: []int{0, 1}})
				}
			}
		}
	}
	// a writer buffer smaller than a frame: the send parks in the write issued while the frame is
	// being buffered, not in the flush
	for _, soft := range []bool{false, true} {
		for _, ops := range [][]string{{"invoke"}, {"send"}, {"send", "recv"}, {"send", "send2"}, {"closesend"}} {
			for _, v := range []string{"q", "r"} {
				cfg := wl.Config{Soft: soft, Pipe: tr.Options{Cap: -1}, WriterBuf: 8}
				ps = append(ps, mc.Plan{Scen: scenario(cfg, spec{stalled: true, ops: ops, variant: v}), Bounds: []int{0, 1}})
			}
		}
	}
	for _, soft := range []bool{false, true} {
		for _, h := range []string{"silent", "echo"} {
			for _, ops := range [][]string{{"invoke"}, {"recv"}, {"send", "recv"}} {
				for _, v := range []string{"q", "r"} {
					cfg := wl.Config{Soft: soft, Pipe: tr.Options{Cap: -1}}
					ps = append(ps, mc.Plan{Scen: scenario(cfg, spec{handler: h, ops: ops, variant: v, prelude: true}), Bounds: []int{0, 1}})
				}
			}
		}
	}
	return ps
}

// plans adds, to every scenario, a twin explored relative to the reversed default schedule (a
// second reference schedule for the deviation bound).
func plans(tier string) []mc.Plan {
	ps := basePlans(tier)
	if tier == "thorough" {
		return mc.WithReversed(ps, 1)
	}
	return mc.WithReversed(ps, 1)
}

func init() {
	mc.Register(&mc.Check{ID: "C04", Plans: plans, Budget: map[string]int{"quick": 240, "thorough": 3600},
		Notes: "C04: ordered subsets of in-flight operations on one RPC (send, second send, recv, close, half-close, unary invoke, next NewStream) over a stalled or flowing transport, cancel after quiescence (q) or racing (r), both cancel modes; oracle clauses (1)-(5) of DESIGN.md."})
}
