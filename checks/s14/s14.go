// Package s14: C14 - the HTTP gateway maps RPC outcomes to Twirp / grpc-web
// responses faithfully (messages, status, error text that cannot inject lines,
// metadata headers, size limits). The expected response is computed by an
// independent predictor (refhttp, in this file) from the handler's behaviour.
package s14

import (
	"bytes"
	"encoding/base64"
	"encoding/binary"
	"encoding/json"
	"errors"
	"fmt"
	"net/http"
	"net/http/httptest"
	"strings"

	"storj.io/drpc"
	"storj.io/drpc/drpcerr"
	"storj.io/drpc/drpchttp"
	"storj.io/drpc/drpcmetadata"

	"verif/harness/enc"
	"verif/seq"
)

const maxSize = 4 << 20

// ---- error values ----

type strCodeErr struct {
	msg, code string
	inner     error
}

func (e *strCodeErr) Error() string { return e.msg }
func (e *strCodeErr) Code() string  { return e.code }
func (e *strCodeErr) Unwrap() error { return e.inner }

type wrapErr struct {
	msg   string
	inner error
}

func (e *wrapErr) Error() string { return e.msg }
func (e *wrapErr) Unwrap() error { return e.inner }

// nilUnwrapErr is an error whose Unwrap reports "nothing wrapped" (as fmt.Errorf without %w does
// not, but hand-written wrappers with an optional cause do).
type nilUnwrapErr struct{ msg string }

func (e *nilUnwrapErr) Error() string { return e.msg }
func (e *nilUnwrapErr) Unwrap() error { return nil }

// ErrSpec describes a handler error.
type ErrSpec struct {
	Msg       string
	Num       uint64 // drpcerr code (0 = none)
	Str       string // twirp-style string code ("" = none)
	Wrapped   bool
	NilUnwrap bool // the innermost error has an Unwrap method returning nil
}

func (s ErrSpec) build() error {
	var err error = errors.New(s.Msg)
	if s.NilUnwrap {
		err = &nilUnwrapErr{msg: s.Msg}
	}
	if s.Str != "" {
		err = &strCodeErr{msg: s.Msg, code: s.Str, inner: err}
	}
	if s.Num != 0 {
		err = drpcerr.WithCode(err, s.Num)
	}
	if s.Wrapped {
		err = &wrapErr{msg: s.Msg, inner: err}
	}
	return err
}

// wantCode is the reference for the textual code: a string code anywhere in the chain, else
// "drpcerr(N)" for a numeric code, else "unknown".
func (s ErrSpec) wantCode() string {
	if s.Str != "" {
		return s.Str
	}
	if s.Num != 0 {
		return fmt.Sprintf("drpcerr(%d)", s.Num)
	}
	return "unknown"
}

var twirpStatus = map[string]int{
	"canceled": 408, "unknown": 500, "invalid_argument": 400, "malformed": 400, "deadline_exceeded": 408,
	"not_found": 404, "bad_route": 404, "already_exists": 409, "permission_denied": 403, "unauthenticated": 401,
	"resource_exhausted": 429, "failed_precondition": 412, "aborted": 409, "out_of_range": 400,
	"unimplemented": 501, "internal": 500, "unavailable": 503, "dataloss": 500,
}

// ---- reference percent-decoding of metadata headers ----

func refUnescape(s string) (string, bool) {
	var out []byte
	for i := 0; i < len(s); i++ {
		if s[i] != '%' {
			out = append(out, s[i])
			continue
		}
		if i+2 >= len(s)+0 && i+2 > len(s)-1 {
			return "", false
		}
		h, ok1 := hexv(s[i+1])
		l, ok2 := hexv(s[i+2])
		if !ok1 || !ok2 {
			return "", false
		}
		out = append(out, h<<4|l)
		i += 2
	}
	return string(out), true
}

func hexv(c byte) (byte, bool) {
	switch {
	case c >= '0' && c <= '9':
		return c - '0', true
	case c >= 'a' && c <= 'f':
		return c - 'a' + 10, true
	case c >= 'A' && c <= 'F':
		return c - 'A' + 10, true
	}
	return 0, false
}

// RefMetadata decodes X-Drpc-Metadata values: ok=false when any entry is malformed.
func RefMetadata(entries []string) (map[string]string, bool) {
	out := map[string]string{}
	for _, e := range entries {
		k, v := e, ""
		if i := strings.IndexByte(e, '='); i >= 0 {
			k, v = e[:i], e[i+1:]
		}
		dk, ok1 := refUnescape(k)
		dv, ok2 := refUnescape(v)
		if !ok1 || !ok2 {
			return nil, false
		}
		out[dk] = dv
	}
	return out, true
}

// ---- the handler under the gateway ----

type behaviour struct {
	Sends []int    // sizes of the messages the handler sends
	Err   *ErrSpec // nil = handler returns nil
}

type observed struct {
	recvOK   bool
	recvErr  error
	request  []byte
	sendErrs []error
	sent     [][]byte
	meta     map[string]string
	hasMeta  bool
}

type handler struct {
	b   behaviour
	obs *observed
}

func fill(n int, seed byte) []byte {
	b := make([]byte, n)
	for i := range b {
		b[i] = seed + byte(i*7)
	}
	return b
}

func (h handler) HandleRPC(stream drpc.Stream, rpc string) error {
	h.obs.meta, h.obs.hasMeta = drpcmetadata.Get(stream.Context())
	var in []byte
	if err := stream.MsgRecv(&in, enc.Bytes{}); err != nil {
		h.obs.recvErr = err
		return err
	}
	h.obs.recvOK, h.obs.request = true, in
	for i, n := range h.b.Sends {
		out := fill(n, byte(i+1))
		err := stream.MsgSend(&out, enc.Bytes{})
		h.obs.sendErrs = append(h.obs.sendErrs, err)
		if err == nil {
			h.obs.sent = append(h.obs.sent, out)
		}
	}
	if h.b.Err != nil {
		return h.b.Err.build()
	}
	return nil
}

// Case is one gateway request.
type Case struct {
	CT      string
	BodyLen int
	B       behaviour
	Headers []string
}

func isGRPCWeb(ct string) bool { return strings.HasPrefix(ct, "application/grpc-web") }
func isText(ct string) bool    { return strings.HasPrefix(ct, "application/grpc-web-text") }
func isJSON(ct string) bool    { return strings.HasSuffix(ct, "json") }

func wireMsg(ct string, raw []byte) []byte {
	if isJSON(ct) {
		b, _ := json.Marshal(raw)
		return b
	}
	return raw
}

func requestBody(c Case, payload []byte) []byte {
	body := wireMsg(c.CT, payload)
	if isGRPCWeb(c.CT) {
		hdr := make([]byte, 5)
		binary.BigEndian.PutUint32(hdr[1:], uint32(len(body)))
		body = append(hdr, body...)
		if isText(c.CT) {
			body = []byte(base64.StdEncoding.EncodeToString(body))
		}
	}
	return body
}

// payloadFor sizes the raw payload so that the wire message has exactly BodyLen bytes.
func payloadFor(c Case) []byte {
	if !isJSON(c.CT) {
		return fill(c.BodyLen, 0x41)
	}
	// JSON: a base64 string in quotes; choose the raw length giving the closest wire length <= BodyLen
	n := (c.BodyLen - 2) / 4 * 3
	if n < 0 {
		n = 0
	}
	return fill(n, 0x41)
}

// Evaluate runs one case through the real gateway and compares with the prediction.
func Evaluate(c Case) (msg string, class string) {
	defer func() {
		if r := recover(); r != nil {
			msg = fmt.Sprintf("gateway panicked: %v", r)
			class = "panic"
		}
	}()
	obs := &observed{}
	gw := drpchttp.New(handler{b: c.B, obs: obs})
	payload := payloadFor(c)
	wire := wireMsg(c.CT, payload)
	req := httptest.NewRequest("POST", "/svc/Method", bytes.NewReader(requestBody(c, payload)))
	if c.CT != "" {
		req.Header.Set("Content-Type", c.CT)
	}
	for _, h := range c.Headers {
		req.Header.Add("X-Drpc-Metadata", h)
	}
	rec := httptest.NewRecorder()
	gw.ServeHTTP(rec, req)
	res := rec.Result()
	body := rec.Body.Bytes()

	// metadata
	wantMeta, ok := RefMetadata(c.Headers)
	if ok && len(c.Headers) > 0 {
		if !obs.hasMeta || !sameMap(obs.meta, wantMeta) {
			return fmt.Sprintf("metadata headers %q: handler context has %v (present=%v), reference decoding %v", c.Headers, obs.meta, obs.hasMeta, wantMeta), "meta"
		}
	} else if obs.hasMeta && len(obs.meta) > 0 {
		return fmt.Sprintf("metadata headers %q are malformed or absent but the handler context carries %v", c.Headers, obs.meta), "meta"
	}

	// request: over the limit => rejected, never truncated
	if obs.recvOK && !bytes.Equal(obs.request, payload) {
		return fmt.Sprintf("handler received %d bytes, the client sent %d (truncated or altered request)", len(obs.request), len(payload)), "request"
	}
	if len(wire) > maxSize && obs.recvOK {
		return fmt.Sprintf("request message of %d bytes is over the %d limit but was accepted", len(wire), maxSize), "request"
	}
	if len(wire) <= maxSize && !obs.recvOK {
		return fmt.Sprintf("request message of %d bytes is within the limit but was rejected: %v", len(wire), obs.recvErr), "request"
	}
	failed := !obs.recvOK || c.B.Err != nil
	var herr error
	switch {
	case !obs.recvOK:
		herr = obs.recvErr
	case c.B.Err != nil:
		herr = c.B.Err.build()
	}
	wantCode := "unknown"
	if obs.recvOK && c.B.Err != nil {
		wantCode = c.B.Err.wantCode()
	}

	ct := c.CT
	if !isGRPCWeb(ct) {
		// Twirp style
		respCT := ct
		if ct != "application/json" {
			respCT = "application/proto"
		}
		if !failed {
			if res.StatusCode != 200 {
				return fmt.Sprintf("successful RPC answered with status %d", res.StatusCode), "twirp-ok"
			}
			var want []byte
			if len(obs.sent) > 0 {
				want = wireMsg(respCT, obs.sent[len(obs.sent)-1])
			}
			if !bytes.Equal(body, want) {
				return fmt.Sprintf("response body has %d bytes, the handler's message %d", len(body), len(want)), "twirp-ok"
			}
			if got := res.Header.Get("Content-Type"); got != respCT {
				return fmt.Sprintf("response content type %q, want %q", got, respCT), "twirp-ok"
			}
			return "", "twirp-ok"
		}
		wantStatus := twirpStatus[wantCode]
		if wantStatus == 0 {
			wantStatus = 500
		}
		if res.StatusCode != wantStatus {
			return fmt.Sprintf("failed RPC (code %q) answered with status %d, want %d", wantCode, res.StatusCode, wantStatus), "twirp-err"
		}
		var doc map[string]any
		if err := json.Unmarshal(body, &doc); err != nil {
			return fmt.Sprintf("error body is not JSON: %v", err), "twirp-err"
		}
		if doc["code"] != wantCode {
			return fmt.Sprintf("error body code %v, want %q", doc["code"], wantCode), "twirp-err"
		}
		// JSON strings are Unicode: bytes that are not valid UTF-8 can only arrive as U+FFFD
		if obs.recvOK && doc["msg"] != strings.ToValidUTF8(c.B.Err.Msg, "\ufffd") {
			return fmt.Sprintf("error body msg %q, want %q", doc["msg"], c.B.Err.Msg), "twirp-err"
		}
		if got := res.Header.Get("Content-Type"); got != "application/json" {
			return fmt.Sprintf("error response content type %q", got), "twirp-err"
		}
		return "", "twirp-err"
	}

	// grpc-web
	frames, perr := deframe(body, isText(ct))
	if perr != "" {
		return "grpc-web body: " + perr, "grpcweb"
	}
	if len(frames) == 0 || frames[len(frames)-1].flag != 0x80 {
		return "grpc-web body does not end with a trailer frame", "grpcweb"
	}
	data := frames[:len(frames)-1]
	if len(data) != len(obs.sent) {
		return fmt.Sprintf("%d data frames, the handler sent %d messages successfully", len(data), len(obs.sent)), "grpcweb"
	}
	for i, f := range data {
		if f.flag != 0 || !bytes.Equal(f.data, wireMsg(ct, obs.sent[i])) {
			return fmt.Sprintf("data frame %d differs from the handler's message %d (flag %d, %d vs %d bytes)", i, i, f.flag, len(f.data), len(wireMsg(ct, obs.sent[i]))), "grpcweb"
		}
	}
	// a send of a message at or over the limit must fail, never be truncated
	for i, n := range c.B.Sends {
		if obs.recvOK && i < len(obs.sendErrs) && obs.sendErrs[i] == nil && len(wireMsg(ct, fill(n, byte(i+1)))) > maxSize {
			return fmt.Sprintf("response message of %d bytes is over the limit but MsgSend succeeded", n), "grpcweb"
		}
	}
	trailer := string(frames[len(frames)-1].data)
	lines := strings.Split(trailer, "\r\n")
	if lines[len(lines)-1] != "" {
		return fmt.Sprintf("trailer does not end with CRLF: %q", trailer), "grpcweb"
	}
	lines = lines[:len(lines)-1]
	kv := map[string]string{}
	var keys []string
	for _, l := range lines {
		i := strings.Index(l, ": ")
		if i < 0 && strings.HasSuffix(l, ":") {
			i = len(l) - 1
			l += " "
		}
		if i < 0 || strings.ContainsAny(l, "\r\n") {
			return fmt.Sprintf("malformed trailer line %q (injected?) in %q", l, trailer), "grpcweb"
		}
		keys = append(keys, l[:i])
		kv[l[:i]] = l[i+2:]
	}
	wantKeys := "grpc-status"
	if failed {
		wantKeys = "grpc-status,grpc-code,grpc-message"
	}
	if strings.Join(keys, ",") != wantKeys {
		return fmt.Sprintf("trailer lines %v, want %s (error text must not be able to add lines): %q", keys, wantKeys, trailer), "grpcweb"
	}
	if (kv["grpc-status"] != "0") != failed {
		return fmt.Sprintf("grpc-status %q but the RPC failed=%v", kv["grpc-status"], failed), "grpcweb"
	}
	if failed && obs.recvOK {
		wantStatus := fmt.Sprint(c.B.Err.Num)
		if c.B.Err.Num == 0 {
			wantStatus = "2"
		}
		if kv["grpc-status"] != wantStatus {
			return fmt.Sprintf("grpc-status %q, want %q", kv["grpc-status"], wantStatus), "grpcweb"
		}
		if kv["grpc-code"] != sanitize(wantCode) {
			return fmt.Sprintf("grpc-code %q, want %q", kv["grpc-code"], wantCode), "grpcweb"
		}
		wantMsg := sanitize(herr.Error())
		if kv["grpc-message"] != wantMsg {
			return fmt.Sprintf("grpc-message %q, want %q", kv["grpc-message"], wantMsg), "grpcweb"
		}
	}
	if failed {
		return "", "grpcweb-err"
	}
	return "", "grpcweb-ok"
}

// sanitize is the reference rendering of a trailer value: line breaks become spaces, surrounding
// white space is dropped (so that no value can start a new line).
func sanitize(v string) string {
	return strings.Trim(strings.NewReplacer("\n", " ", "\r", " ").Replace(v), " \t")
}

type frame struct {
	flag byte
	data []byte
}

// deframe splits a grpc-web body into frames (each frame separately base64-encoded in text mode).
func deframe(body []byte, text bool) ([]frame, string) {
	var out []frame
	for len(body) > 0 {
		if !text {
			if len(body) < 5 {
				return nil, "truncated frame header"
			}
			n := int(binary.BigEndian.Uint32(body[1:5]))
			if len(body) < 5+n {
				return nil, fmt.Sprintf("frame declares %d bytes, %d present (truncated)", n, len(body)-5)
			}
			out = append(out, frame{body[0], body[5 : 5+n]})
			body = body[5+n:]
			continue
		}
		if len(body) < 8 {
			return nil, "truncated base64 frame header"
		}
		hdr, err := base64.StdEncoding.DecodeString(string(body[:8]))
		if err != nil || len(hdr) < 5 {
			return nil, fmt.Sprintf("bad base64 frame header %q", body[:8])
		}
		n := int(binary.BigEndian.Uint32(hdr[1:5]))
		encLen := base64.StdEncoding.EncodedLen(5 + n)
		if len(body) < encLen {
			return nil, "truncated base64 frame"
		}
		raw, err := base64.StdEncoding.DecodeString(string(body[:encLen]))
		if err != nil || len(raw) != 5+n {
			return nil, "bad base64 frame"
		}
		out = append(out, frame{raw[0], raw[5:]})
		body = body[encLen:]
	}
	return out, ""
}

func sameMap(a, b map[string]string) bool {
	if len(a) != len(b) {
		return false
	}
	for k, v := range a {
		if w, ok := b[k]; !ok || w != v {
			return false
		}
	}
	return true
}

var contentTypes = []string{
	"application/proto", "application/json",
	"application/grpc-web+proto", "application/grpc-web+json",
	"application/grpc-web-text+proto", "application/grpc-web-text+json",
	"*", "text/unknown", "",
}

var errTexts = []string{"", "x", "a\r\nb", "\n", "lf only\ngrpc-status: 0", "cr only\rgrpc-status: 0", "x\ny\r\nz", "ü", "grpc-status: 0", " padded ", "ctl\x01\a\v\x7f", "bad\xffutf8", "tag\U000e0001", "q\"\\/<>&", "100% %s", strings.Repeat("k", 1024)}

func errSpecs() []ErrSpec {
	var out []ErrSpec
	for _, t := range errTexts {
		for _, n := range []uint64{0, 1, 2, 12, 1<<64 - 1} {
			out = append(out, ErrSpec{Msg: t, Num: n}, ErrSpec{Msg: t, Num: n, Wrapped: true})
		}
	}
	codes := []string{"made_up_code", "bad\r\ncode: x"}
	for k := range twirpStatus {
		codes = append(codes, k)
	}
	out = append(out, ErrSpec{Msg: "nil-unwrap", NilUnwrap: true}, ErrSpec{Msg: "nil-unwrap", NilUnwrap: true, Num: 3, Wrapped: true})
	sortStrings(codes)
	for _, c := range codes {
		out = append(out, ErrSpec{Msg: "coded", Str: c}, ErrSpec{Msg: "coded", Str: c, Wrapped: true, Num: 7})
	}
	return out
}

func sortStrings(s []string) {
	for i := range s {
		for j := i + 1; j < len(s); j++ {
			if s[j] < s[i] {
				s[i], s[j] = s[j], s[i]
			}
		}
	}
}

func run(ctx *seq.Ctx, cases []Case) {
	seq.Parallel(len(cases), func(i int) {
		if ctx.Expired() {
			return
		}
		msg, class := Evaluate(cases[i])
		ctx.Count(1, 1, 1)
		if msg != "" {
			ctx.Fail(msg, cases[i])
			return
		}
		ctx.Class(class)
	})
}

func replay(in json.RawMessage) string {
	var c Case
	if err := json.Unmarshal(in, &c); err != nil {
		return "bad replay input: " + err.Error()
	}
	msg, _ := Evaluate(c)
	return msg
}

func outcomesFamily() seq.Family {
	return seq.Family{Name: "outcomes", Replay: replay, Run: func(ctx *seq.Ctx) {
		var cases []Case
		for _, ct := range contentTypes {
			for _, sends := range [][]int{{}, {0}, {3}, {3, 0, 5}, {1, 2}} {
				cases = append(cases, Case{CT: ct, BodyLen: 6, B: behaviour{Sends: sends}})
				for _, e := range errSpecs() {
					e := e
					cases = append(cases, Case{CT: ct, BodyLen: 6, B: behaviour{Sends: sends, Err: &e}})
				}
			}
		}
		run(ctx, cases)
		ctx.Sample(Case{CT: "application/grpc-web-text+proto", BodyLen: 6, B: behaviour{Sends: []int{3, 0, 5}, Err: &ErrSpec{Msg: "a\r\nb", Num: 12}}})
	}}
}

func sizesFamily(tier string) seq.Family {
	return seq.Family{Name: "size-limits", Replay: replay, Run: func(ctx *seq.Ctx) {
		var cases []Case
		cts := contentTypes[:6]
		if tier == "quick" {
			cts = []string{"application/proto", "application/json", "application/grpc-web+proto", "application/grpc-web-text+proto"}
		}
		for _, ct := range cts {
			for _, n := range []int{0, 1, maxSize - 1, maxSize, maxSize + 1, maxSize + 4096} {
				cases = append(cases, Case{CT: ct, BodyLen: n, B: behaviour{Sends: []int{1}}})
			}
			for _, n := range []int{maxSize - 1, maxSize, maxSize + 1} {
				cases = append(cases, Case{CT: ct, BodyLen: 2, B: behaviour{Sends: []int{n}}}, Case{CT: ct, BodyLen: 2, B: behaviour{Sends: []int{2, n, 3}}})
			}
		}
		run(ctx, cases)
		ctx.Sample(Case{CT: "application/proto", BodyLen: maxSize + 1, B: behaviour{Sends: []int{1}}})
	}}
}

// HeaderStrings enumerates all strings up to maxLen over the alphabet.
func HeaderStrings(alphabet []byte, maxLen int, f func(s string)) {
	buf := make([]byte, 0, maxLen)
	var rec func()
	rec = func() {
		f(string(buf))
		if len(buf) == maxLen {
			return
		}
		for _, a := range alphabet {
			buf = append(buf, a)
			rec()
			buf = buf[:len(buf)-1]
		}
	}
	rec()
}

// HeaderAlphabet is the alphabet of the metadata header enumeration.
var HeaderAlphabet = []byte{'%', '=', 'a', '4', '1', 'G', '+', ' ', 0xff}

func headersFamily(maxLen int) seq.Family {
	return seq.Family{Name: fmt.Sprintf("metadata-headers<=%d", maxLen), Replay: replay, Run: func(ctx *seq.Ctx) {
		var all []string
		HeaderStrings(HeaderAlphabet, maxLen, func(s string) { all = append(all, s) })
		seq.Parallel(len(all), func(i int) {
			if ctx.Expired() {
				return
			}
			c := Case{CT: "application/proto", BodyLen: 1, B: behaviour{Sends: []int{1}}, Headers: []string{all[i]}}
			msg, _ := Evaluate(c)
			ctx.Count(1, 1, 1)
			if msg != "" {
				ctx.Fail(msg, c)
				return
			}
			if _, ok := RefMetadata(c.Headers); ok {
				ctx.Class("decodes")
			} else {
				ctx.Class("malformed")
			}
		})
		// two headers: later entries override earlier ones, one malformed entry voids all
		pairs := []string{"a=1", "a=2", "b", "%41=%42", "%", "%4", "=", "a=%zz", ""}
		for _, x := range pairs {
			for _, y := range pairs {
				c := Case{CT: "application/grpc-web+proto", BodyLen: 1, B: behaviour{Sends: []int{1}}, Headers: []string{x, y}}
				msg, _ := Evaluate(c)
				ctx.Count(1, 1, 1)
				if msg != "" {
					ctx.Fail(msg, c)
				}
			}
		}
		ctx.Sample(Case{CT: "application/proto", BodyLen: 1, Headers: []string{"%41=a%20b"}})
	}}
}

// ---- two requests in flight on one gateway ----

// multi dispatches on the rpc name so that one gateway instance serves different behaviours.
type multi map[string]behaviour

func (m multi) HandleRPC(stream drpc.Stream, rpc string) error {
	return handler{b: m[rpc], obs: &observed{}}.HandleRPC(stream, rpc)
}

// gatedRecorder is an http.ResponseWriter whose k-th Write parks until released, and which reads
// the bytes it is given only then (a slow client connection).
type gatedRecorder struct {
	hdr     http.Header
	code    int
	body    []byte
	writes  int
	parkAt  int
	parked  chan struct{}
	release chan struct{}
}

func (g *gatedRecorder) Header() http.Header { return g.hdr }
func (g *gatedRecorder) WriteHeader(c int) {
	if g.code == 0 {
		g.code = c
	}
}
func (g *gatedRecorder) Write(p []byte) (int, error) {
	if g.code == 0 {
		g.code = 200
	}
	k := g.writes
	g.writes++
	if k == g.parkAt {
		close(g.parked)
		<-g.release
	}
	g.body = append(g.body, p...)
	return len(p), nil
}
func (g *gatedRecorder) Flush() {}

// PairCase: request A is parked inside its K-th response write while request B is served completely.
type PairCase struct {
	A, B Case
	K    int
}

func pairRequest(c Case, path string) *http.Request {
	req := httptest.NewRequest("POST", path, bytes.NewReader(requestBody(c, payloadFor(c))))
	if c.CT != "" {
		req.Header.Set("Content-Type", c.CT)
	}
	return req
}

func render(code int, hdr http.Header, body []byte) string {
	return fmt.Sprintf("%d %q %q %x", code, hdr.Get("Content-Type"), hdr.Get("Grpc-Status")+hdr.Get("Grpc-Message"), body)
}

// evalPair returns "" when both responses equal what each request yields when served alone.
func evalPair(pc PairCase) (msg string, writesA int) {
	gwOf := func() http.Handler {
		return drpchttp.New(multi{"/svc/A": pc.A.B, "/svc/B": pc.B.B})
	}
	solo := func(c Case, path string) (string, int) {
		g := &gatedRecorder{hdr: http.Header{}, parkAt: -1}
		gwOf().ServeHTTP(g, pairRequest(c, path))
		return render(g.code, g.hdr, g.body), g.writes
	}
	wantA, nA := solo(pc.A, "/svc/A")
	wantB, _ := solo(pc.B, "/svc/B")
	if pc.K >= nA {
		return "", nA
	}
	gw := gwOf()
	ga := &gatedRecorder{hdr: http.Header{}, parkAt: pc.K, parked: make(chan struct{}), release: make(chan struct{})}
	doneA := make(chan struct{})
	go func() { defer close(doneA); gw.ServeHTTP(ga, pairRequest(pc.A, "/svc/A")) }()
	select {
	case <-ga.parked:
	case <-doneA:
		return fmt.Sprintf("request A made %d response writes when served alone but finished before write %d this time", nA, pc.K), nA
	}
	gb := &gatedRecorder{hdr: http.Header{}, parkAt: -1}
	gw.ServeHTTP(gb, pairRequest(pc.B, "/svc/B"))
	close(ga.release)
	<-doneA
	if got := render(gb.code, gb.hdr, gb.body); got != wantB {
		return fmt.Sprintf("request B, served while A was parked in its response write %d, got a different response than when served alone:\n  alone:   %.300s\n  together: %.300s", pc.K, wantB, got), nA
	}
	if got := render(ga.code, ga.hdr, ga.body); got != wantA {
		return fmt.Sprintf("request A, parked in its response write %d while B was served, got a different response than when served alone:\n  alone:   %.300s\n  together: %.300s", pc.K, wantA, got), nA
	}
	return "", nA
}

func pairsFamily() seq.Family {
	return seq.Family{
		Name: "two-requests-in-flight",
		Run: func(ctx *seq.Ctx) {
			var singles []Case
			e := ErrSpec{Msg: "quota exceeded", Num: 7}
			for _, ct := range []string{"application/grpc-web+proto", "application/grpc-web-text+proto", "application/proto", "application/json"} {
				for _, b := range []behaviour{{Sends: []int{3}}, {Sends: []int{5, 2}}, {Sends: []int{4}, Err: &e}, {Err: &e}} {
					singles = append(singles, Case{CT: ct, BodyLen: 6, B: b})
				}
			}
			var cases []PairCase
			for _, a := range singles {
				for _, b := range singles {
					cases = append(cases, PairCase{A: a, B: b})
				}
			}
			seq.Parallel(len(cases), func(i int) {
				for k := 0; ; k++ {
					pc := cases[i]
					pc.K = k
					msg, n := evalPair(pc)
					if k >= n {
						break
					}
					ctx.Count(1, 3, 2)
					if msg != "" {
						ctx.Fail(msg, pc)
						return
					}
				}
			})
			ctx.Class("independent")
			ctx.Sample(PairCase{A: singles[0], B: singles[2], K: 0})
		},
		Replay: func(in json.RawMessage) string {
			var pc PairCase
			if err := json.Unmarshal(in, &pc); err != nil {
				return "bad replay input: " + err.Error()
			}
			msg, _ := evalPair(pc)
			return msg
		},
	}
}

func families(tier string) []seq.Family {
	n := 5
	if tier == "thorough" {
		n = 6
	}
	return []seq.Family{outcomesFamily(), headersFamily(n), sizesFamily(tier), pairsFamily()}
}

var _ = http.StatusOK

func init() {
	seq.Register(&seq.Check{ID: "C14", Families: families, Budget: map[string]int{"quick": 90, "thorough": 600},
		Notes: "C14: 9 content types x 5 send patterns x (success + 118 error values: 8 texts incl. CR/LF/header-like/non-ASCII/1KiB x 5 numeric codes x wrapping, all Twirp string codes + unknown + one with CR/LF) through httptest; request bodies and response messages at max-1/max/max+1; ALL metadata header strings up to length 5 (6) over {%,=,a,4,1,G,+,space,0xff} plus pairs of headers; the expected status/body/trailer/metadata is predicted independently from the handler's behaviour."})
}
