// Package s08: C08 - the frame codec round-trips, parsing is total and agrees
// with the independent reference decoder (harness/refwire).
package s08

import (
	"bytes"
	"encoding/json"
	"fmt"

	"storj.io/drpc/drpcwire"

	"verif/harness/refwire"
	"verif/seq"
)

// compareParse runs both parsers on b and returns a disagreement message.
func compareParse(b []byte) (msg string, class string) {
	rem, fr, ok, err := drpcwire.ParseFrame(b)
	rf, rrest, rr := refwire.Parse(b)
	switch rr {
	case refwire.OK:
		class = "frame"
		if !ok || err != nil {
			return fmt.Sprintf("reference decodes a frame %v, ParseFrame says ok=%v err=%v", rf, ok, err), class
		}
		if len(rem) != len(rrest) || (len(rem) > 0 && &rem[0] != &b[len(b)-len(rem)]) {
			return fmt.Sprintf("remainder differs: ParseFrame leaves %d bytes, reference %d", len(rem), len(rrest)), class
		}
		if uint8(fr.Kind) != rf.Kind || fr.Done != rf.Done || fr.Control != rf.Control || fr.ID.Stream != rf.ID.Stream || fr.ID.Message != rf.ID.Message || !bytes.Equal(fr.Data, rf.Data) {
			return fmt.Sprintf("frame differs: ParseFrame %v, reference %v", fr, rf), class
		}
	case refwire.NeedMore:
		class = "need-more"
		if ok || err != nil {
			return fmt.Sprintf("reference needs more data, ParseFrame says ok=%v err=%v", ok, err), class
		}
		if len(rem) != len(b) {
			return "need-more must return the input intact", class
		}
	case refwire.Bad:
		class = "malformed"
		if ok || err == nil {
			return fmt.Sprintf("reference rejects the input, ParseFrame says ok=%v err=%v", ok, err), class
		}
	}
	return "", class
}

// extendable validates the reference itself: a need-more input must be a proper prefix of some frame.
func extendable(b []byte) bool {
	x := append([]byte(nil), b...)
	for i := 0; i < 40; i++ {
		if len(x) >= 4 {
			p := x[1:]
			var vals [3]uint64
			ok := true
			for k := range vals {
				v, n, r := refwire.Uvarint(p)
				if r == refwire.Bad {
					return false
				}
				if r == refwire.NeedMore {
					ok = false
					break
				}
				vals[k], p = v, p[n:]
			}
			if ok {
				if vals[2] <= uint64(len(p)) {
					_, _, r := refwire.Parse(x)
					return r == refwire.OK
				}
				if vals[2] > 1<<26 {
					return true // a frame with that declared length exists; too large to materialise
				}
				full := append(x, make([]byte, int(vals[2])-len(p))...)
				_, rest, r := refwire.Parse(full)
				return r == refwire.OK && len(rest) == 0
			}
		}
		x = append(x, 0)
	}
	return false
}

func enumStrings(ctx *seq.Ctx, alphabet []byte, maxLen int, f func(b []byte) bool) {
	// parallel over the first symbol (and second, when present)
	type job struct{ prefix []byte }
	var jobs []job
	jobs = append(jobs, job{nil})
	for _, a := range alphabet {
		jobs = append(jobs, job{[]byte{a}})
	}
	// length 0 and 1 handled directly; longer strings sharded by 2-symbol prefix
	var shards [][]byte
	if maxLen >= 2 {
		for _, a := range alphabet {
			for _, b := range alphabet {
				shards = append(shards, []byte{a, b})
			}
		}
	}
	for _, j := range jobs {
		if len(j.prefix) <= maxLen {
			if !f(j.prefix) {
				return
			}
		}
	}
	stop := false
	seq.Parallel(len(shards), func(i int) {
		if stop || ctx.Expired() {
			return
		}
		buf := make([]byte, 0, maxLen)
		buf = append(buf, shards[i]...)
		var rec func() bool
		rec = func() bool {
			if !f(buf) {
				return false
			}
			if len(buf) == maxLen {
				return true
			}
			for _, a := range alphabet {
				buf = append(buf, a)
				ok := rec()
				buf = buf[:len(buf)-1]
				if !ok {
					return false
				}
			}
			return true
		}
		if !rec() {
			stop = true
		}
	})
}

func full() []byte {
	a := make([]byte, 256)
	for i := range a {
		a[i] = byte(i)
	}
	return a
}

func stringsFamily(name string, alphabet []byte, maxLen int) seq.Family {
	return seq.Family{
		Name: name,
		Run: func(ctx *seq.Ctx) {
			enumStrings(ctx, alphabet, maxLen, func(b []byte) bool {
				var msg, class string
				func() {
					defer func() {
						if r := recover(); r != nil {
							msg = fmt.Sprintf("ParseFrame panicked: %v", r)
						}
					}()
					msg, class = compareParse(b)
				}()
				if len(b)%3 == 0 {
					ctx.Count(1, 1, 1)
				} else {
					ctx.Count(1, 1, 1)
				}
				if msg == "" && class == "need-more" && len(b) <= 6 && !extendable(b) {
					msg = "REFERENCE self-check: need-more answer for an input that no extension completes"
				}
				if msg != "" {
					return !ctx.Fail(msg+" input="+seq.Hex(b), map[string]string{"hex": seq.Hex(b)})
				}
				if len(b) == maxLen {
					ctx.Class(class)
				}
				return true
			})
			ctx.Sample(map[string]any{"alphabet": seq.Hex(alphabet[:min(len(alphabet), 8)]), "max_len": maxLen})
		},
		Replay: func(in json.RawMessage) string {
			var v struct{ Hex string }
			_ = json.Unmarshal(in, &v)
			msg, _ := compareParse(seq.Unhex(v.Hex))
			return msg
		},
	}
}

var idVals = []uint64{0, 1, 127, 128, 1<<14 - 1, 1 << 14, 1 << 32, 1 << 63, 1<<64 - 1}
var payloadLens = []int{0, 1, 2, 127, 128, 300}

func framesFamily() seq.Family {
	return seq.Family{
		Name: "frames",
		Run: func(ctx *seq.Ctx) {
			for kind := 0; kind < 64; kind++ {
				for flags := 0; flags < 4; flags++ {
					for _, s := range idVals {
						for _, m := range idVals {
							for _, n := range payloadLens {
								data := make([]byte, n)
								for i := range data {
									data[i] = byte(i*13 + kind)
								}
								fr := drpcwire.Frame{Data: data, ID: drpcwire.ID{Stream: s, Message: m}, Kind: drpcwire.Kind(kind), Done: flags&1 != 0, Control: flags&2 != 0}
								if msg := roundTrip(fr); msg != "" {
									if ctx.Fail(msg, map[string]any{"kind": kind, "flags": flags, "stream": s, "message": m, "len": n}) {
										return
									}
								}
								ctx.Count(1, 3+n/16, 1)
							}
						}
					}
				}
				if ctx.Expired() {
					return
				}
			}
			ctx.Class("round-trip")
			ctx.Sample(map[string]any{"kind": 63, "done": true, "control": true, "stream": "2^64-1", "message": "2^63", "payload_len": 300})
		},
		Replay: func(in json.RawMessage) string {
			var v struct {
				Kind, Flags, Len int
				Stream, Message  uint64
			}
			_ = json.Unmarshal(in, &v)
			return roundTrip(drpcwire.Frame{Data: make([]byte, v.Len), ID: drpcwire.ID{Stream: v.Stream, Message: v.Message}, Kind: drpcwire.Kind(v.Kind), Done: v.Flags&1 != 0, Control: v.Flags&2 != 0})
		},
	}
}

func roundTrip(fr drpcwire.Frame) string {
	enc := drpcwire.AppendFrame(nil, fr)
	ref := refwire.Append(nil, refwire.Frame{Data: fr.Data, ID: refwire.ID{Stream: fr.ID.Stream, Message: fr.ID.Message}, Kind: uint8(fr.Kind), Done: fr.Done, Control: fr.Control})
	if !bytes.Equal(enc, ref) {
		return fmt.Sprintf("AppendFrame(%v) = %s, reference encoding %s", fr, seq.Hex(enc[:min(len(enc), 40)]), seq.Hex(ref[:min(len(ref), 40)]))
	}
	if len(fr.Data) <= 1 {
		if msg := appendInto(func(dst []byte) []byte { return drpcwire.AppendFrame(dst, fr) }, enc); msg != "" {
			return fmt.Sprintf("AppendFrame(dst, %v): %s", fr, msg)
		}
	}
	rem, got, ok, err := drpcwire.ParseFrame(enc)
	if !ok || err != nil || len(rem) != 0 {
		return fmt.Sprintf("ParseFrame(AppendFrame(%v)): ok=%v err=%v rem=%d", fr, ok, err, len(rem))
	}
	if got.Kind != fr.Kind || got.Done != fr.Done || got.Control != fr.Control || got.ID != fr.ID || !bytes.Equal(got.Data, fr.Data) {
		return fmt.Sprintf("round trip altered the frame: %v -> %v", fr, got)
	}
	// every proper prefix needs more data and is returned intact (long payloads: boundary prefixes only)
	for cut := 0; cut < len(enc); cut++ {
		if cut > 40 && cut < len(enc)-3 {
			continue
		}
		rem, _, ok, err := drpcwire.ParseFrame(enc[:cut])
		if ok || err != nil || len(rem) != cut {
			return fmt.Sprintf("proper prefix (%d of %d bytes) of %v: ok=%v err=%v rem=%d", cut, len(enc), fr, ok, err, len(rem))
		}
	}
	// trailing bytes are left as the exact remainder
	tail := []byte{0xff, 0x00, 0x80}
	rem, got, ok, err = drpcwire.ParseFrame(append(append([]byte(nil), enc...), tail...))
	if !ok || err != nil || !bytes.Equal(rem, tail) || !bytes.Equal(got.Data, fr.Data) {
		return fmt.Sprintf("trailing bytes after %v: ok=%v err=%v rem=%s", fr, ok, err, seq.Hex(rem))
	}
	return ""
}

func varintRound(v uint64) string {
	enc := drpcwire.AppendVarint(nil, v)
	if ref := refwire.PutUvarint(nil, v); !bytes.Equal(enc, ref) {
		return fmt.Sprintf("AppendVarint(%d) = %s, reference %s", v, seq.Hex(enc), seq.Hex(ref))
	}
	rem, out, ok, err := drpcwire.ReadVarint(enc)
	if !ok || err != nil || len(rem) != 0 || out != v {
		return fmt.Sprintf("ReadVarint(AppendVarint(%d)) = %d ok=%v err=%v rem=%d", v, out, ok, err, len(rem))
	}
	// appending is appending: whatever the destination already holds and however much room it has
	if v < 1<<14 || v&(v-1) == 0 || (v+1)&v == 0 || v > 1<<62 {
		if msg := appendInto(func(dst []byte) []byte { return drpcwire.AppendVarint(dst, v) }, enc); msg != "" {
			return fmt.Sprintf("AppendVarint(dst, %d): %s", v, msg)
		}
	}
	return ""
}

// appendInto checks an append-style encoder against its encoding into nil for destinations with a
// prefix and with 0..12, 31, 64 bytes of spare capacity.
func appendInto(f func(dst []byte) []byte, want []byte) (msg string) {
	defer func() {
		if r := recover(); r != nil {
			msg = fmt.Sprintf("panic: %v", r)
		}
	}()
	for _, prefix := range [][]byte{nil, {0xaa}, {0xaa, 0xbb, 0xcc}} {
		for _, room := range []int{0, 1, 2, 3, 4, 5, 6, 7, 8, 9, 10, 11, 12, 31, 64} {
			dst := make([]byte, len(prefix), len(prefix)+room)
			copy(dst, prefix)
			out := f(dst)
			if len(out) < len(prefix) || !bytes.Equal(out[:len(prefix)], prefix) || !bytes.Equal(out[len(prefix):], want) {
				return fmt.Sprintf("into a destination holding %d bytes with room for %d more: got %s, want prefix+%s", len(prefix), room, seq.Hex(out[:min(len(out), 40)]), seq.Hex(want[:min(len(want), 40)]))
			}
		}
	}
	return ""
}

func varintValues(limit uint64) seq.Family {
	return seq.Family{
		Name: fmt.Sprintf("varint-values<2^%d+structured", bitsOf(limit)),
		Run: func(ctx *seq.Ctx) {
			chunks := 64
			per := limit / uint64(chunks)
			seq.Parallel(chunks, func(i int) {
				n := 0
				for v := uint64(i) * per; v < uint64(i+1)*per; v++ {
					if msg := varintRound(v); msg != "" {
						ctx.Fail(msg, map[string]uint64{"value": v})
						return
					}
					n++
				}
				ctx.Count(n, 2*n, n)
			})
			n := 0
			try := func(v uint64) {
				if msg := varintRound(v); msg != "" {
					ctx.Fail(msg, map[string]uint64{"value": v})
				}
				n++
			}
			for k := uint(0); k < 64; k++ {
				try(1<<k - 1)
				try(1 << k)
				try(1<<k + 1)
			}
			try(1<<64 - 1)
			coef := []uint64{0, 1, 127}
			for i := uint(0); i < 10; i++ {
				for j := uint(0); j < 10; j++ {
					for _, a := range coef {
						for _, b := range coef {
							try(a<<(7*i) + b<<(7*j))
						}
					}
				}
			}
			ctx.Count(n, 2*n, n)
			ctx.Class("round-trip")
			ctx.Sample(map[string]any{"value": "2^63+1", "encoded": seq.Hex(drpcwire.AppendVarint(nil, 1<<63+1))})
		},
		Replay: func(in json.RawMessage) string {
			var v struct{ Value uint64 }
			_ = json.Unmarshal(in, &v)
			return varintRound(v.Value)
		},
	}
}

func bitsOf(v uint64) int {
	n := 0
	for v > 1 {
		v >>= 1
		n++
	}
	return n
}

func compareVarint(b []byte) (string, string) {
	rem, out, ok, err := drpcwire.ReadVarint(b)
	v, n, r := refwire.Uvarint(b)
	switch r {
	case refwire.OK:
		if !ok || err != nil || out != v || len(rem) != len(b)-n {
			return fmt.Sprintf("reference reads %d (%d bytes); ReadVarint = %d ok=%v err=%v rem=%d", v, n, out, ok, err, len(rem)), "value"
		}
		return "", "value"
	case refwire.NeedMore:
		if ok || err != nil || len(rem) != len(b) {
			return fmt.Sprintf("reference needs more; ReadVarint ok=%v err=%v rem=%d", ok, err, len(rem)), "need-more"
		}
		return "", "need-more"
	default:
		if ok || err == nil {
			return fmt.Sprintf("reference rejects (too long); ReadVarint ok=%v err=%v", ok, err), "too-long"
		}
		return "", "too-long"
	}
}

func varintStrings(maxLen int) seq.Family {
	alphabet := []byte{0x00, 0x01, 0x7f, 0x80, 0xff}
	return seq.Family{
		Name: fmt.Sprintf("varint-strings<=%d", maxLen),
		Run: func(ctx *seq.Ctx) {
			enumStrings(ctx, alphabet, maxLen, func(b []byte) bool {
				msg, class := compareVarint(b)
				ctx.Count(1, 1, 1)
				if msg != "" {
					return !ctx.Fail(msg+" input="+seq.Hex(b), map[string]string{"hex": seq.Hex(b)})
				}
				if len(b) == maxLen {
					ctx.Class(class)
				}
				return true
			})
			ctx.Sample(map[string]any{"alphabet": "00 01 7f 80 ff", "max_len": maxLen})
		},
		Replay: func(in json.RawMessage) string {
			var v struct{ Hex string }
			_ = json.Unmarshal(in, &v)
			msg, _ := compareVarint(seq.Unhex(v.Hex))
			return msg
		},
	}
}

func splitCase(n, size int) string {
	data := make([]byte, n)
	for i := range data {
		data[i] = byte(i + 1)
	}
	limit := size
	if size == 0 {
		limit = 64 * 1024
	}
	var got []byte
	nframes, lastDone := 0, false
	err := drpcwire.SplitN(drpcwire.Packet{Data: data, ID: drpcwire.ID{Stream: 3, Message: 4}, Kind: drpcwire.KindMessage, Control: size == 7}, size, func(fr drpcwire.Frame) error {
		nframes++
		if lastDone {
			return fmt.Errorf("frame after the done frame")
		}
		lastDone = fr.Done
		if limit > 0 && len(fr.Data) > limit {
			return fmt.Errorf("frame of %d bytes exceeds split size %d", len(fr.Data), limit)
		}
		if fr.ID != (drpcwire.ID{Stream: 3, Message: 4}) || fr.Kind != drpcwire.KindMessage || fr.Control != (size == 7) {
			return fmt.Errorf("frame header altered: %v", fr)
		}
		if len(fr.Data) == 0 && n > 0 {
			return fmt.Errorf("empty frame while splitting %d bytes", n)
		}
		got = append(got, fr.Data...)
		return nil
	})
	if err != nil {
		return fmt.Sprintf("SplitN(len=%d, n=%d): %v", n, size, err)
	}
	if !lastDone {
		return fmt.Sprintf("SplitN(len=%d, n=%d): last frame not done", n, size)
	}
	if !bytes.Equal(got, data) {
		return fmt.Sprintf("SplitN(len=%d, n=%d): concatenation differs", n, size)
	}
	if limit > 0 {
		want := (n + limit - 1) / limit
		if want == 0 {
			want = 1
		}
		if nframes != want {
			return fmt.Sprintf("SplitN(len=%d, n=%d): %d frames, want %d", n, size, nframes, want)
		}
	} else if nframes != 1 {
		return fmt.Sprintf("SplitN(len=%d, n=%d): negative size must not split, got %d frames", n, size, nframes)
	}
	return ""
}

func splitFamily() seq.Family {
	return seq.Family{
		Name: "split",
		Run: func(ctx *seq.Ctx) {
			for n := 0; n <= 40; n++ {
				for _, size := range []int{-1, 0, 1, 2, 3, 7, 40, 41} {
					ctx.Count(1, 1, 1)
					if msg := splitCase(n, size); msg != "" {
						if ctx.Fail(msg, map[string]int{"len": n, "n": size}) {
							return
						}
					}
				}
			}
			for _, n := range []int{64*1024 - 1, 64 * 1024, 64*1024 + 1, 3*64*1024 + 5} {
				ctx.Count(1, 1, 1)
				if msg := splitCase(n, 0); msg != "" {
					ctx.Fail(msg, map[string]int{"len": n, "n": 0})
				}
			}
			ctx.Class("split-ok")
			ctx.Sample(map[string]int{"len": 40, "n": 7})
		},
		Replay: func(in json.RawMessage) string {
			var v struct{ Len, N int }
			_ = json.Unmarshal(in, &v)
			return splitCase(v.Len, v.N)
		},
	}
}

// boundaryFamily: integers of 8..11 bytes (continuation patterns all-80, all-ff, mixed) in each of
// the three header fields, followed by nothing or by one more byte: the answer for "ten
// continuation bytes" must be "malformed" whether or not anything follows.
func boundaryFamily() seq.Family {
	return seq.Family{
		Name: "overlong-integers-at-buffer-end",
		Run: func(ctx *seq.Ctx) {
			pats := func(n int) [][]byte {
				a, b, c := make([]byte, n), make([]byte, n), make([]byte, n)
				for i := range a {
					a[i], b[i] = 0x80, 0xff
					c[i] = []byte{0x80, 0xff, 0x81}[i%3]
				}
				return [][]byte{a, b, c}
			}
			prefixes := [][]byte{{0x05}, {0x05, 0x01}, {0x05, 0x01, 0x01}, {0x05, 0x80, 0x01}, {0x85, 0xff, 0x7f, 0x03}}
			tails := [][]byte{nil, {0x00}, {0x01}, {0x80}, {0x7f, 0x00}}
			for n := 8; n <= 11; n++ {
				for _, pat := range pats(n) {
					for _, tail := range tails {
						v := append(append([]byte{}, pat...), tail...)
						ctx.Count(1, 1, 1)
						if msg, _ := compareVarint(v); msg != "" {
							ctx.Fail(msg+" input="+seq.Hex(v), map[string]string{"hex": seq.Hex(v), "kind": "varint"})
						}
						for _, pre := range prefixes {
							b := append(append([]byte{}, pre...), v...)
							ctx.Count(1, 1, 1)
							msg, class := compareParse(b)
							if msg != "" {
								ctx.Fail(msg+" input="+seq.Hex(b), map[string]string{"hex": seq.Hex(b)})
							}
							ctx.Class(class)
						}
					}
				}
			}
			ctx.Sample(map[string]string{"hex": "05" + "80808080808080808080"})
		},
		Replay: func(in json.RawMessage) string {
			var v struct{ Hex, Kind string }
			_ = json.Unmarshal(in, &v)
			if v.Kind == "varint" {
				msg, _ := compareVarint(seq.Unhex(v.Hex))
				return msg
			}
			msg, _ := compareParse(seq.Unhex(v.Hex))
			return msg
		},
	}
}

func families(tier string) []seq.Family {
	a8 := []byte{0x00, 0x01, 0x02, 0x03, 0x7f, 0x80, 0x81, 0xff}
	a4 := []byte{0x00, 0x01, 0x80, 0xff}
	if tier == "quick" {
		return []seq.Family{framesFamily(), stringsFamily("bytes<=3/full", full(), 3), stringsFamily("bytes<=6/8sym", a8, 6), stringsFamily("bytes<=10/4sym", a4, 10), varintValues(1 << 20), varintStrings(9), boundaryFamily(), splitFamily()}
	}
	return []seq.Family{framesFamily(), stringsFamily("bytes<=3/full", full(), 3), stringsFamily("bytes<=7/8sym", a8, 7), stringsFamily("bytes<=12/4sym", a4, 12), varintValues(1 << 26), varintStrings(11), boundaryFamily(), splitFamily()}
}

func init() {
	seq.Register(&seq.Check{ID: "C08", Families: families, Budget: map[string]int{"quick": 90, "thorough": 900},
		Notes: "C08: frames over all 64 kinds x flags x 9x9 boundary ids x 6 payload lengths (round trip, every proper prefix, trailing bytes, byte equality with the reference encoder); ParseFrame vs the reference decoder on ALL byte strings up to the stated lengths/alphabets; varints for all values below the limit plus boundary structure classes, and ReadVarint vs the reference on all strings over {00,01,7f,80,ff}; SplitN for all (length<=40, n) pairs."})
}
