// Package c15: the connection pool never exceeds its bounds or mishandles
// ownership, for all put/take/close sequences and all timings of expiry callbacks.
package c15

import (
	"context"
	"errors"
	"fmt"
	"strings"
	"time"

	"storj.io/drpc"
	"storj.io/drpc/drpcconn"
	"storj.io/drpc/drpcpool"

	"verif/engine/sched"
	"verif/engine/vs"
	"verif/harness/tr"
	"verif/mc"
)

type poolState struct {
	inFlight int // pool operations currently executing (two-thread scenarios)
	conns    []*fakeConn
	fails    []string
	trace    []string
}

func (ps *poolState) failf(f string, a ...any) {
	ps.fails = append(ps.fails, fmt.Sprintf("after [%s]: ", strings.Join(ps.trace, " "))+fmt.Sprintf(f, a...))
}

// fakeConn is a drpcpool.Conn whose state the harness controls and logs.
type fakeConn struct {
	ps               *poolState
	id               int
	key              string
	closedCh         chan struct{}
	unblockCh        chan struct{} // nil = unblocked (closed channel returned)
	isClosed         bool          // its Closed() channel is closed (by Close or by the harness)
	chClosing        bool
	harnessClosed    bool
	inPool           bool // handed to Put and not returned by Take since
	everPut          bool
	taken            int // times returned by Take
	closes           int // Close calls
	closedWhileOwned bool
	inUse            int
}

var closedCh = func() chan struct{} { c := make(chan struct{}); close(c); return c }()

func (c *fakeConn) Close() error {
	c.closes++
	if !c.inPool && c.everPut {
		c.closedWhileOwned = true
	}
	c.closeChan()
	return nil
}
func (c *fakeConn) Closed() <-chan struct{} { return c.closedCh }

// closeChan closes the Closed() channel once; the oracle treats the connection as dead only
// after the (scheduled) close has happened.
func (c *fakeConn) closeChan() {
	if c.chClosing {
		return
	}
	c.chClosing = true
	vs.Close(c.closedCh)
	c.isClosed = true
}
func (c *fakeConn) Unblocked() <-chan struct{} {
	if c.unblockCh == nil {
		return closedCh
	}
	return c.unblockCh
}
func (c *fakeConn) Invoke(ctx context.Context, rpc string, enc drpc.Encoding, in, out drpc.Message) error {
	c.inUse++
	if c.inUse > 1 {
		c.ps.failf("connection %d used by two callers at once", c.id)
	}
	if c.isClosed {
		c.ps.failf("connection %d handed out although it is closed", c.id)
	}
	sched.Point("fake.Invoke", nil)
	c.inUse--
	return nil
}
func (c *fakeConn) NewStream(ctx context.Context, rpc string, enc drpc.Encoding) (drpc.Stream, error) {
	c.inUse++
	if c.inUse > 1 {
		c.ps.failf("connection %d used by two callers at once", c.id)
	}
	if c.isClosed {
		c.ps.failf("connection %d handed out although it is closed", c.id)
		return nil, errors.New("closed")
	}
	return &fakeStream{conn: c, done: make(chan struct{})}, nil
}

// fakeStream is a stream whose end (context done) the harness decides.
type fakeStream struct {
	conn     *fakeConn
	done     chan struct{}
	finished bool
}

type fakeStreamCtx struct {
	context.Context
	s *fakeStream
}

func (c fakeStreamCtx) Done() <-chan struct{} { return c.s.done }

func (s *fakeStream) Context() context.Context                          { return fakeStreamCtx{context.Background(), s} }
func (s *fakeStream) MsgSend(msg drpc.Message, enc drpc.Encoding) error { return nil }
func (s *fakeStream) MsgRecv(msg drpc.Message, enc drpc.Encoding) error { return nil }
func (s *fakeStream) CloseSend() error                                  { return nil }
func (s *fakeStream) Close() error                                      { s.finish(); return nil }
func (s *fakeStream) finish() {
	if !s.finished {
		s.finished = true
		s.conn.inUse--
		vs.Close(s.done)
	}
}

type cfg struct {
	capacity, keyCap int
	expire           bool
}

func (c cfg) String() string {
	return fmt.Sprintf("cap=%d keycap=%d exp=%v", c.capacity, c.keyCap, c.expire)
}

var opNames = []string{"P1", "P2", "T1", "T2", "X", "B", "U", "C"}

func (ps *poolState) openIdle() int {
	n := 0
	for _, c := range ps.conns {
		if c.closes == 0 && c.inUse == 0 {
			n++
		}
	}
	return n
}

func (ps *poolState) cached(key string) int {
	n := 0
	for _, c := range ps.conns {
		if c.inPool && c.closes == 0 && !c.harnessClosed && (key == "" || c.key == key) {
			n++
		}
	}
	return n
}

// occupancy clause, evaluated when no expiry callback is half-way
func (ps *poolState) checkBounds(c cfg) {
	if sched.LiveNamed("timerfunc") > 0 || ps.inFlight > 0 {
		return // an expiry callback or another thread's operation is half-way
	}
	if c.capacity > 0 && ps.cached("") > c.capacity {
		ps.failf("pool caches %d connections, Capacity is %d", ps.cached(""), c.capacity)
	}
	if c.keyCap > 0 {
		for _, k := range []string{"k1", "k2"} {
			if n := ps.cached(k); n > c.keyCap {
				ps.failf("pool caches %d connections for key %s, KeyCapacity is %d", n, k, c.keyCap)
			}
		}
	}
}

func apply(ps *poolState, pool *drpcpool.Pool[string, *fakeConn], c cfg, op string) {
	ps.trace = append(ps.trace, op)
	ps.inFlight++
	defer func() { ps.inFlight--; ps.checkBounds(c) }()
	switch op {
	case "P1", "P2":
		key := "k" + op[1:]
		fc := &fakeConn{ps: ps, id: len(ps.conns), key: key, closedCh: make(chan struct{})}
		ps.conns = append(ps.conns, fc)
		fc.inPool, fc.everPut = true, true
		pool.Put(key, fc)
	case "T1", "T2":
		key := "k" + op[1:]
		// a connection may die or get blocked at any moment; only what was already true when the
		// Take began counts against it
		deadBefore, blockedBefore := map[*fakeConn]bool{}, map[*fakeConn]bool{}
		for _, x := range ps.conns {
			deadBefore[x] = x.isClosed
			blockedBefore[x] = x.unblockCh != nil
		}
		fc, ok := pool.Take(key)
		if ok {
			switch {
			case fc == nil:
				ps.failf("Take returned ok with a nil connection")
				return
			case !fc.inPool:
				ps.failf("Take returned connection %d which is not in the pool (handed out twice)", fc.id)
			case fc.key != key:
				ps.failf("Take(%s) returned a connection cached under %s", key, fc.key)
			case deadBefore[fc]:
				ps.failf("Take returned connection %d which is closed", fc.id)
			case blockedBefore[fc] && fc.unblockCh != nil:
				ps.failf("Take returned connection %d which is still blocked by a cancelled call", fc.id)
			}
			fc.inPool = false
			fc.taken++
		}
	case "X": // the most recently put connection that is still cached dies
		for i := len(ps.conns) - 1; i >= 0; i-- {
			if fc := ps.conns[i]; fc.inPool && !fc.chClosing {
				fc.harnessClosed = true // excluded from the occupancy count from now on
				fc.closeChan()
				break
			}
		}
	case "B":
		for i := len(ps.conns) - 1; i >= 0; i-- {
			if fc := ps.conns[i]; fc.inPool && !fc.isClosed && fc.unblockCh == nil {
				fc.unblockCh = make(chan struct{})
				break
			}
		}
	case "U":
		for _, fc := range ps.conns {
			if fc.unblockCh != nil {
				vs.Close(fc.unblockCh)
				fc.unblockCh = nil
			}
		}
	case "C":
		_ = pool.Close()
	}
}

func finalChecks(ps *poolState, c cfg) {
	for _, fc := range ps.conns {
		if !fc.everPut {
			continue
		}
		if fc.closedWhileOwned {
			ps.failf("connection %d was closed by the pool while a caller owned it (handed out and closed)", fc.id)
		}
		if fc.closes > 1 {
			ps.failf("connection %d closed %d times by the pool", fc.id, fc.closes)
		}
		if fc.harnessClosed {
			continue // it died on its own; the pool owes it nothing
		}
		out := !fc.inPool
		if out && fc.closes > 0 {
			ps.failf("connection %d was both handed out and closed by the pool", fc.id)
		}
		if !out && fc.closes == 0 {
			ps.failf("connection %d was put into the pool and never handed out nor closed (leaked), even after Pool.Close", fc.id)
		}
	}
}

func seqScenario(c cfg, steps int, second bool) *mc.Scenario {
	name := fmt.Sprintf("pool[%s steps=%d second-thread=%v]", c, steps, second)
	body := func() {
		ps := &poolState{}
		sched.Cur().State()["ps"] = ps
		opts := drpcpool.Options{Capacity: c.capacity, KeyCapacity: c.keyCap}
		if c.expire {
			opts.Expiration = time.Minute
		}
		pool := drpcpool.New[string, *fakeConn](opts)
		if second {
			vs.Go("second", func() {
				for i := 0; i < 2; i++ {
					k := sched.Choose(4, "op2")
					apply(ps, pool, c, []string{"P1", "T1", "P2", "T2"}[k])
				}
			})
		}
		for i := 0; i < steps; i++ {
			k := sched.Choose(len(opNames), "op")
			apply(ps, pool, c, opNames[k])
		}
		sched.QuiesceAll() // every armed timer fires, every callback finishes
		ps.trace = append(ps.trace, "|timers-resolved")
		ps.checkBounds(c)
		apply(ps, pool, c, "U")
		apply(ps, pool, c, "C")
		sched.QuiesceAll()
		finalChecks(ps, c)
		sched.Observef("conns=%d cached=%d", len(ps.conns), ps.cached(""))
	}
	check := func(e *sched.Exec) string {
		ps := e.State()["ps"].(*poolState)
		if len(e.Panics) > 0 {
			return fmt.Sprintf("panic after [%s]: %s", strings.Join(ps.trace, " "), e.Panics[0])
		}
		if len(ps.fails) > 0 {
			return ps.fails[0]
		}
		for _, b := range e.Blocked {
			if !b.Daemon {
				return "goroutine left blocked: " + b.Name + "@" + b.What
			}
		}
		return ""
	}
	return &mc.Scenario{Name: name, Body: body, Check: check, Model: sched.Preemption}
}

// wrapper scenario: two goroutines use Pool.Get(...).Invoke concurrently
func wrapperScenario(c cfg) *mc.Scenario {
	name := fmt.Sprintf("pool-wrapper[%s]", c)
	body := func() {
		ps := &poolState{}
		sched.Cur().State()["ps"] = ps
		opts := drpcpool.Options{Capacity: c.capacity, KeyCapacity: c.keyCap}
		if c.expire {
			opts.Expiration = time.Minute
		}
		pool := drpcpool.New[string, *fakeConn](opts)
		dial := func(ctx context.Context, key string) (*fakeConn, error) {
			fc := &fakeConn{ps: ps, id: len(ps.conns), key: key, closedCh: make(chan struct{})}
			ps.conns = append(ps.conns, fc)
			return fc, nil
		}
		var wg vs.WaitGroup
		for g := 0; g < 2; g++ {
			g := g
			wg.Add(1)
			vs.Go(fmt.Sprintf("user%d", g), func() {
				conn := pool.Get(context.Background(), "k1", dial)
				for i := 0; i < 2; i++ {
					if (g+i)%2 == 0 {
						_ = conn.Invoke(context.Background(), "/x", nil, nil, nil)
						continue
					}
					// a streaming rpc: the connection goes back to the pool when the stream is done,
					// and the wrapped stream's context ends only after that
					st, err := conn.NewStream(context.Background(), "/s", nil)
					if err != nil {
						ps.failf("NewStream through the pool failed: %v", err)
						continue
					}
					_ = st.Close()
					vs.Recv(st.Context().Done())
					if n := ps.openIdle(); n == 0 && c.capacity != 0 && c.capacity >= 1 {
						// (with Capacity >= 1 the connection just returned must be cached or, if a
						// concurrent user raced it, in use; it must not have been closed)
					}
				}
				_ = conn.Close()
				wg.Done()
			})
		}
		wg.Wait()
		sched.QuiesceAll()
		// the wrapper puts connections back itself: reconstruct custody from Put/Take is not
		// possible from outside, so only the global clauses are checked here
		n := 0
		for _, fc := range ps.conns {
			if fc.closes == 0 {
				n++
			}
		}
		if c.capacity > 0 && n > c.capacity {
			ps.failf("after all calls returned %d dialled connections are still open, Capacity is %d", n, c.capacity)
		}
		_ = pool.Close()
		sched.QuiesceAll()
		for _, fc := range ps.conns {
			if fc.closes != 1 {
				ps.failf("connection %d closed %d times after Pool.Close (want exactly once)", fc.id, fc.closes)
			}
		}
		sched.Observef("dialled=%d", len(ps.conns))
	}
	check := func(e *sched.Exec) string {
		if len(e.Panics) > 0 {
			return "panic: " + e.Panics[0]
		}
		ps := e.State()["ps"].(*poolState)
		if len(ps.fails) > 0 {
			return ps.fails[0]
		}
		return ""
	}
	return &mc.Scenario{Name: name, Body: body, Check: check, Model: sched.Preemption}
}

// wrapperCloseScenario: the caller closes its pooled connection while a stream it opened through it
// is still running (Close only stops new calls). The underlying connection belongs to that stream
// until the stream ends: nobody else may be given it, and the pool must not close it.
func wrapperCloseScenario(c cfg) *mc.Scenario {
	name := fmt.Sprintf("pool-wrapper-close-with-open-stream[%s]", c)
	body := func() {
		ps := &poolState{}
		sched.Cur().State()["ps"] = ps
		opts := drpcpool.Options{Capacity: c.capacity, KeyCapacity: c.keyCap}
		if c.expire {
			opts.Expiration = time.Minute
		}
		pool := drpcpool.New[string, *fakeConn](opts)
		dial := func(ctx context.Context, key string) (*fakeConn, error) {
			fc := &fakeConn{ps: ps, id: len(ps.conns), key: key, closedCh: make(chan struct{})}
			ps.conns = append(ps.conns, fc)
			return fc, nil
		}
		connA := pool.Get(context.Background(), "k1", dial)
		st, err := connA.NewStream(context.Background(), "/s", nil)
		if err != nil {
			ps.failf("NewStream through the pool failed: %v", err)
			return
		}
		vs.Go("closerA", func() { _ = connA.Close() })
		vs.Go("userB", func() {
			connB := pool.Get(context.Background(), "k1", dial)
			_ = connB.Invoke(context.Background(), "/x", nil, nil, nil)
			_ = connB.Close()
		})
		sched.QuiesceAll()
		if ps.conns[0].closes != 0 {
			ps.failf("the pool closed connection 0 while the stream opened through it is still running")
		}
		_ = st.Close()
		sched.QuiesceAll()
		_ = pool.Close()
		sched.QuiesceAll()
		for _, fc := range ps.conns {
			if fc.closes != 1 {
				ps.failf("connection %d closed %d times after Pool.Close (want exactly once)", fc.id, fc.closes)
			}
		}
		sched.Observef("dialled=%d", len(ps.conns))
	}
	check := func(e *sched.Exec) string {
		if len(e.Panics) > 0 {
			return "panic: " + e.Panics[0]
		}
		ps := e.State()["ps"].(*poolState)
		if len(ps.fails) > 0 {
			return ps.fails[0]
		}
		return ""
	}
	return &mc.Scenario{Name: name, Body: body, Check: check, Model: sched.Preemption}
}

// realConnScenario: a real drpcconn.Conn is cached; its peer goes away (the manager terminates and
// closes its transport, and that Close takes a while); a Take runs at any point. A connection whose
// transport had already been closed when the Take began must not be handed out.
func realConnScenario() *mc.Scenario {
	body := func() {
		ps := &poolState{}
		sched.Cur().State()["ps"] = ps
		cli, srv := tr.New("cli", "srv", tr.Options{Cap: -1, SlowClose: true})
		conn := drpcconn.New(cli)
		pool := drpcpool.New[string, *drpcconn.Conn](drpcpool.Options{Capacity: 2})
		sched.Setup(sched.Quiesce) // the connection's goroutines are parked
		pool.Put("k", conn)
		vs.Go("peer-goes-away", func() { srv.EnvClose() })
		vs.Go("taker", func() {
			deadBefore := cli.IsClosed()
			c, ok := pool.Take("k")
			if ok && deadBefore {
				ps.failf("Take handed out a connection whose transport had already been closed when the Take began (the connection does not report closed yet: %v)", !vs.IsClosed(c.Closed()))
			}
			if ok {
				_ = c.Close()
			}
		})
		sched.Quiesce()
		_ = pool.Close()
		_ = conn.Close()
		sched.Quiesce()
		sched.Observef("closes=%d", cli.Closes)
	}
	check := func(e *sched.Exec) string {
		if len(e.Panics) > 0 {
			return "panic: " + e.Panics[0]
		}
		ps := e.State()["ps"].(*poolState)
		if len(ps.fails) > 0 {
			return ps.fails[0]
		}
		return ""
	}
	return &mc.Scenario{Name: "pool-with-a-real-connection[peer goes away while the connection is cached ; transport Close takes a while ; Take at any point]", Body: body, Check: check, Model: sched.Deviation, NoCache: true}
}

func plans(tier string) []mc.Plan {
	var ps []mc.Plan
	for _, capacity := range []int{1, 2, 0} {
		for _, kc := range []int{0, 1} {
			for _, exp := range []bool{false, true} {
				c := cfg{capacity, kc, exp}
				steps, bounds := 4, []int{0}
				if exp {
					steps, bounds = 3, []int{0, 1, 2}
				}
				if tier == "thorough" {
					steps = 5
					if exp {
						steps, bounds = 4, []int{0, 1, 2}
					}
				}
				ps = append(ps, mc.Plan{Scen: seqScenario(c, steps, false), Bounds: bounds, Split: true})
				if exp && tier == "thorough" {
					ps = append(ps, mc.Plan{Scen: seqScenario(c, 3, false), Bounds: []int{3}, Split: true})
				}
				if capacity != 0 {
					b2 := []int{0, 1, 2}
					if tier == "thorough" {
						b2 = []int{0, 1, 2, 3}
					}
					ps = append(ps, mc.Plan{Scen: seqScenario(c, 2, true), Bounds: b2[:len(b2)-1], Split: true})
					ps = append(ps, mc.Plan{Scen: wrapperScenario(c), Bounds: b2[:len(b2)-1], Split: true})
					ps = append(ps, mc.Plan{Scen: wrapperCloseScenario(c), Bounds: []int{0, 1, 2}})
				}
			}
		}
	}
	ps = append(ps, mc.Plan{Scen: realConnScenario(), Bounds: []int{0, 1, 2}})
	return ps
}

func init() {
	mc.Register(&mc.Check{ID: "C15", Plans: plans, Budget: map[string]int{"quick": 240, "thorough": 1200},
		Notes: "C15: real drpcpool.Pool with logging fake connections and virtual timers; the put/take/close/mark-dead/mark-blocked sequence is a data choice of the explorer (all sequences up to the stated length over 8 symbols and 12 capacity/key-capacity/expiration configurations); expiry timers are pseudo-threads whose firing and whose callback are scheduled anywhere within the preemption bound (fired-but-not-finished is an ordinary state); optional second thread; the Pool.Get wrapper with two concurrent users."})
}
