// Package c03: the stream lifecycle follows the documented state machine. A real
// drpcstream.Stream is driven through every operation/packet sequence up to a
// bound and compared step by step with harness/refstream.
package c03

import (
	"bytes"
	"context"
	"encoding/binary"
	"errors"
	"fmt"
	"io"
	"strings"

	"storj.io/drpc"
	"storj.io/drpc/drpcerr"
	"storj.io/drpc/drpcstream"
	"storj.io/drpc/drpcwire"

	"verif/engine/sched"
	"verif/engine/vs"
	"verif/harness/enc"
	"verif/harness/refstream"
	"verif/harness/refwire"
	"verif/mc"
)

var (
	e1 = errors.New("cancel-cause-e1")
	e2 = errors.New("soft-cancel-cause-e2")
)

const (
	remoteText = "remote boom"
	remoteCode = 42
	sid        = 7
)

type recWriter struct{ buf []byte }

func (w *recWriter) Write(p []byte) (int, error) {
	w.buf = append(w.buf, p...)
	return len(p), nil
}

type callRes struct {
	op       refstream.Op
	returned bool
	err      error
	flag     bool // Cancel's result / SendCancel's busy
	data     []byte
}

func classOK(c refstream.Class, r *callRes) bool {
	err := r.err
	switch c {
	case refstream.Nil:
		return err == nil
	case refstream.True:
		return r.flag && err == nil
	case refstream.False:
		return !r.flag && err == nil
	case refstream.EOF:
		return err == io.EOF
	case refstream.AnyErr:
		return err != nil
	case refstream.Canceled:
		return err == context.Canceled
	case refstream.ExactE1:
		return err == e1
	case refstream.ExactE2:
		return err == e2
	case refstream.Remote:
		return err != nil && err.Error() == remoteText && drpcerr.Code(err) == remoteCode
	case refstream.Closed:
		return drpc.ClosedError.Has(err)
	case refstream.Proto:
		return drpc.ProtocolError.Has(err)
	case refstream.Internal:
		return drpc.InternalError.Has(err)
	}
	return false
}

func payloadFor(call int) []byte { return enc.Payload('m', 1, byte(call), enc.MinPayload) }

// perform runs one symbol against the real stream (inside its own goroutine).
func perform(st *drpcstream.Stream, op refstream.Op, call int, r *callRes) {
	pkt := func(kind drpcwire.Kind, control bool, data []byte, stream uint64) {
		r.err = st.HandlePacket(drpcwire.Packet{Data: data, ID: drpcwire.ID{Stream: stream, Message: uint64(call + 1)}, Kind: kind, Control: control})
	}
	switch op {
	case refstream.Send:
		out := payloadFor(call)
		r.err = st.MsgSend(&out, enc.Bytes{})
	case refstream.Recv:
		var in []byte
		r.err = st.MsgRecv(&in, enc.Bytes{})
		r.data = in
	case recvBad:
		var in []byte
		r.err = st.MsgRecv(&in, enc.FailUnmarshal{})
	case refstream.CloseSend:
		r.err = st.CloseSend()
	case refstream.Close:
		r.err = st.Close()
	case refstream.SendError:
		r.err = st.SendError(drpcerr.WithCode(errors.New("local failure"), 9))
	case refstream.Cancel:
		r.flag = st.Cancel(e1)
	case refstream.SendCancel:
		r.flag, r.err = st.SendCancel(e2)
	case refstream.Flush:
		r.err = st.RawFlush()
	case refstream.RawWrite:
		r.err = st.RawWrite(drpcwire.KindMessage, payloadFor(call))
	case refstream.RawRecv:
		r.data, r.err = st.RawRecv()
	case refstream.PMsg:
		pkt(drpcwire.KindMessage, false, payloadFor(call), sid)
	case refstream.PCloseSend:
		pkt(drpcwire.KindCloseSend, false, nil, sid)
	case refstream.PClose:
		pkt(drpcwire.KindClose, false, nil, sid)
	case refstream.PError:
		var b [8]byte
		binary.BigEndian.PutUint64(b[:], remoteCode)
		pkt(drpcwire.KindError, false, append(b[:], remoteText...), sid)
	case refstream.PCancel:
		pkt(drpcwire.KindCancel, true, nil, sid)
	case refstream.PInvoke:
		pkt(drpcwire.KindInvoke, false, []byte("/x"), sid)
	case refstream.PUnkCtl:
		pkt(drpcwire.Kind(40), true, []byte("future"), sid)
	case refstream.PUnk:
		pkt(drpcwire.Kind(41), false, []byte("bogus"), sid)
	case refstream.PForeign:
		pkt(drpcwire.KindClose, false, nil, sid+1)
	}
	r.returned = true
}

// recvBad is MsgRecv through a decoder that rejects the message. For the state machine it is a
// receive like any other (the message is consumed); only the call's own result differs.
const recvBad refstream.Op = "MsgRecv(decoder fails)"

func modelOp(op refstream.Op) refstream.Op {
	if op == recvBad {
		return refstream.Recv
	}
	return op
}

type run struct {
	fails []string
	trace []string
}

func enabledOps(m *refstream.Model) []refstream.Op {
	var out []refstream.Op
	for _, op := range refstream.Alphabet {
		if m.Enabled(op) {
			out = append(out, op)
		}
	}
	return out
}

// scenario: fixed prefix, then `free` steps chosen by the explorer among the enabled symbols.
func scenario(mf bool, prefix []refstream.Op, free int, label string) *mc.Scenario {
	return scenarioOver(nil, mf, prefix, free, label)
}

// scenarioOver is scenario with the free steps drawn from the given symbols (nil = the full alphabet).
func scenarioOver(alphabet []refstream.Op, mf bool, prefix []refstream.Op, free int, label string) *mc.Scenario {
	name := fmt.Sprintf("stream[mf=%v %s +%d free steps]", mf, label, free)
	body := func() {
		rn := &run{}
		sched.Cur().State()["run"] = rn
		w := &recWriter{}
		st := drpcstream.NewWithOptions(context.Background(), sid, drpcwire.NewWriter(w, 0), drpcstream.Options{ManualFlush: mf})
		m := &refstream.Model{ManualFlush: mf}
		var calls []*callRes
		parsed := 0
		var lastID refwire.ID
		sentPayload := map[int][]byte{}
		step := func(op refstream.Op) bool {
			call := len(calls)
			r := &callRes{op: op}
			calls = append(calls, r)
			if op == refstream.PMsg {
				sentPayload[call] = payloadFor(call)
			}
			wasReturned := make([]bool, len(calls))
			for i, c := range calls {
				wasReturned[i] = c.returned
			}
			pred := m.Step(modelOp(op))
			vs.Go(string(op), func() { perform(st, op, call, r) })
			sched.Quiesce()
			rn.trace = append(rn.trace, string(op))
			fail := func(f string, a ...any) bool {
				rn.fails = append(rn.fails, fmt.Sprintf("after [%s]: ", strings.Join(rn.trace, " "))+fmt.Sprintf(f, a...))
				return false
			}
			// which calls completed in this step
			expect := map[int]refstream.Returned{}
			for _, x := range pred.Returned {
				expect[x.ID] = x
			}
			for i, c := range calls {
				if c.returned && !wasReturned[i] {
					x, ok := expect[i]
					if !ok {
						return fail("call #%d %s returned (err=%v flag=%v) but the state machine keeps it in flight", i, c.op, c.err, c.flag)
					}
					if c.op == recvBad && x.Data {
						// a message was handed to this receive: its decoder rejects it
						if c.err != enc.ErrUndecodable {
							return fail("call #%d %s returned err=%v, want the decoder's error", i, c.op, c.err)
						}
					} else if !classOK(x.Class, c) {
						return fail("call #%d %s returned err=%v flag=%v, the state machine says %s", i, c.op, c.err, c.flag, x.Class)
					}
					if (c.op == refstream.Recv || c.op == refstream.RawRecv) && x.Data {
						ok := false
						for _, p := range sentPayload {
							if bytes.Equal(p, c.data) {
								ok = true
							}
						}
						if !ok {
							return fail("MsgRecv #%d delivered bytes no Message packet carried: %x", i, c.data)
						}
					}
					delete(expect, i)
				}
			}
			for i, x := range expect {
				return fail("call #%d %s is still in flight, the state machine says it returns %s", i, x.Op, x.Class)
			}
			if pred.Blocked && r.returned {
				return fail("%s returned, the state machine says it blocks", op)
			}
			// frames emitted by this step
			frames, rest, res := refwire.ParseAll(w.buf[parsed:])
			if res != refwire.OK || len(rest) != 0 {
				return fail("bytes on the writer are not whole frames")
			}
			parsed = len(w.buf)
			if len(frames) != len(pred.Emits) {
				return fail("%d frames emitted %v, the state machine says %d %v", len(frames), frames, len(pred.Emits), pred.Emits)
			}
			for i, f := range frames {
				want := pred.Emits[i]
				if int(f.Kind) != want.Kind || f.Control != want.Control || !f.Done || f.ID.Stream != sid {
					return fail("frame %d is %v, the state machine says kind=%d control=%v done", i, f, want.Kind, want.Control)
				}
				if !lastID.Less(f.ID) {
					return fail("message ids on the wire do not strictly increase: %v after %v", f.ID, lastID)
				}
				lastID = f.ID
			}
			// signals
			if got := st.IsTerminated(); got != m.Terminated() {
				return fail("Terminated=%v, the state machine says %v", got, m.Terminated())
			}
			if got := vs.IsClosed(st.Terminated()); got != m.Terminated() {
				return fail("Terminated() channel closed=%v, the state machine says %v", got, m.Terminated())
			}
			if got := st.IsFinished(); got != m.Finished() {
				return fail("Finished=%v, the state machine says %v (terminated=%v, in flight=%d)", got, m.Finished(), m.Terminated(), m.InFlight())
			}
			if got := vs.IsClosed(st.Context().Done()); got != m.Finished() {
				return fail("Context().Done() closed=%v, the state machine says %v", got, m.Finished())
			}
			cerr := st.Context().Err()
			if m.Finished() && cerr != context.Canceled {
				return fail("finished stream: Context().Err()=%v, want context.Canceled", cerr)
			}
			if !m.Finished() && cerr != nil {
				return fail("unfinished stream: Context().Err()=%v, want nil", cerr)
			}
			return true
		}
		for _, op := range prefix {
			if !m.Enabled(modelOp(op)) {
				rn.fails = append(rn.fails, "HARNESS prefix op disabled")
				return
			}
			if !step(op) {
				return
			}
		}
		for i := 0; i < free; i++ {
			ops := enabledOps(m)
			if alphabet != nil {
				ops = nil
				for _, op := range alphabet {
					if m.Enabled(modelOp(op)) {
						ops = append(ops, op)
					}
				}
			}
			k := sched.Choose(len(ops), "op")
			if !step(ops[k]) {
				return
			}
		}
		sched.Observe(m.Key())
	}
	check := func(e *sched.Exec) string {
		if len(e.Panics) > 0 {
			return "panic: " + e.Panics[0]
		}
		rn, _ := e.State()["run"].(*run)
		if rn == nil {
			return "HARNESS no run state"
		}
		if len(rn.fails) > 0 {
			return rn.fails[0]
		}
		return ""
	}
	return &mc.Scenario{Name: name, Body: body, Check: check, Model: sched.DataFree, NoCache: true}
}

// ---- sequences with a write parked inside the transport ----

// stallWriter hands every Write to the log at once and then parks it while stalled.
type stallWriter struct {
	mon     vs.Monitor
	buf     []byte
	stalled bool
}

func (w *stallWriter) Write(p []byte) (int, error) {
	w.buf = append(w.buf, p...) // the bytes are on the transport from the moment the call begins
	w.mon.Do("writer.Write", func() bool { return !w.stalled }, func() {})
	return len(p), nil
}

// an 11-byte message is six frames at split size 2
const msgFrames = (enc.MinPayload + 1) / 2

var parkedW = []refstream.Op{refstream.Send, refstream.CloseSend, refstream.Close, refstream.SendError, refstream.SendCancel}
var parkedX = []refstream.Op{"none", refstream.Cancel, refstream.SendCancel, refstream.PCloseSend, refstream.PClose, refstream.PError, refstream.PCancel, refstream.PInvoke, refstream.PUnk, refstream.PUnkCtl, refstream.PForeign}
var parkedD = []refstream.Op{"none", refstream.Send, refstream.Flush, refstream.CloseSend, refstream.Close, refstream.SendError}
var parkedPrefix = []refstream.Op{"none", refstream.PCloseSend, refstream.CloseSend}

// parkedScenario: [prefix] ; stall ; W parks in its first transport write ; up to two calls that do
// not need the write side (X) ; optionally one call that queues behind it (D) ; release.
func parkedScenario() *mc.Scenario {
	body := func() {
		rn := &run{}
		sched.Cur().State()["run"] = rn
		w := &stallWriter{}
		st := drpcstream.NewWithOptions(context.Background(), sid, drpcwire.NewWriter(w, 1), drpcstream.Options{SplitSize: 2})
		m := &refstream.Model{}
		parsed := 0
		var lastID refwire.ID
		fail := func(f string, a ...any) {
			rn.fails = append(rn.fails, fmt.Sprintf("after [%s]: ", strings.Join(rn.trace, " "))+fmt.Sprintf(f, a...))
		}
		// frames appended since the last look: returns (kinds, all done?)
		newFrames := func() []refwire.Frame {
			frames, rest, res := refwire.ParseAll(w.buf[parsed:])
			if res != refwire.OK || len(rest) != 0 {
				fail("bytes on the writer are not whole frames")
				return nil
			}
			parsed = len(w.buf)
			for _, f := range frames {
				if f.ID.Less(lastID) || f.ID.Stream != sid {
					fail("ids on the wire go backwards: %v after %v", f.ID, lastID)
				}
				lastID = f.ID
			}
			return frames
		}
		signals := func() bool {
			if got := st.IsTerminated(); got != m.Terminated() {
				fail("Terminated=%v, the state machine says %v", got, m.Terminated())
				return false
			}
			if got := st.IsFinished(); got != m.Finished() {
				fail("Finished=%v, the state machine says %v (terminated=%v, a call is parked in the transport=%v)", got, m.Finished(), m.Terminated(), m.WriterBusy)
				return false
			}
			if got := vs.IsClosed(st.Context().Done()); got != m.Finished() {
				fail("Context().Done() closed=%v, the state machine says %v", got, m.Finished())
				return false
			}
			return true
		}
		calls := 0
		start := func(op refstream.Op) *callRes {
			r := &callRes{op: op}
			c := calls
			calls++
			rn.trace = append(rn.trace, string(op))
			vs.Go(string(op), func() { perform(st, op, c, r) })
			sched.Quiesce()
			return r
		}
		// prefix, un-stalled, through the plain model
		if p := parkedPrefix[sched.Choose(len(parkedPrefix), "prefix")]; p != "none" {
			pred := m.Step(p)
			r := start(p)
			if !r.returned || len(pred.Returned) != 1 || !classOK(pred.Returned[0].Class, r) {
				fail("prefix %s: returned=%v err=%v", p, r.returned, r.err)
				return
			}
			newFrames()
		}
		w.mon.Do("stall", nil, func() { w.stalled = true })
		rn.trace = append(rn.trace, "<stall>")
		wop := parkedW[sched.Choose(len(parkedW), "W")]
		wasSend := m.SendClass()
		wasTerm := m.Terminated()
		var wpred refstream.Prediction
		if wop != refstream.Send {
			wpred = m.Step(wop) // terminal calls change the state first and then write
		}
		wr := start(wop)
		writes := (wop == refstream.Send && wasSend == "") || (wop != refstream.Send && len(wpred.Emits) > 0)
		if !writes {
			// nothing to write in this state: the call must simply return what the state machine says
			want := wasSend
			if wop != refstream.Send {
				want = wpred.Returned[0].Class
			}
			if !wr.returned || !classOK(want, wr) {
				fail("%s (no write needed) returned=%v err=%v flag=%v, want %s", wop, wr.returned, wr.err, wr.flag, want)
			}
			if n := len(newFrames()); n != 0 {
				fail("%s emitted %d frames in a state where it must not write", wop, n)
			}
			return
		}
		_ = wasTerm
		if wr.returned {
			fail("%s returned although the transport is stalled", wop)
			return
		}
		m.WriterBusy = true
		first := newFrames()
		if len(first) != 1 {
			fail("%s handed %d frames to the stalled transport, want its first one", wop, len(first))
			return
		}
		if !signals() {
			return
		}
		// calls that do not need the write side
		for i := 0; i < 2; i++ {
			x := parkedX[sched.Choose(len(parkedX), "X")]
			if x == "none" {
				continue
			}
			if x == refstream.SendCancel {
				r := start(x)
				if !r.returned || !r.flag || r.err != nil {
					fail("SendCancel while a call is parked in the transport: returned=%v busy=%v err=%v, want busy", r.returned, r.flag, r.err)
					return
				}
			} else {
				pred := m.Step(x)
				r := start(x)
				if !r.returned {
					fail("%s blocks while another call is parked in the transport", x)
					return
				}
				if len(pred.Returned) != 1 || !classOK(pred.Returned[0].Class, r) {
					fail("%s returned err=%v flag=%v, the state machine says %v", x, r.err, r.flag, pred.Returned)
					return
				}
			}
			if n := len(newFrames()); n != 0 {
				fail("%s emitted %d frames", x, n)
				return
			}
			if !signals() {
				return
			}
		}
		// one call that queues behind the parked one
		d := parkedD[sched.Choose(len(parkedD), "D")]
		var dr *callRes
		if d != "none" {
			dr = start(d)
			willWait := true
			switch d {
			case refstream.CloseSend:
				willWait = m.SendClass() == "" && !m.Terminated()
			case refstream.Close, refstream.SendError:
				willWait = !m.Terminated()
			}
			if willWait && dr.returned {
				fail("%s returned although the write side is held by the parked call", d)
				return
			}
			if !willWait && !dr.returned {
				fail("%s blocks although it has nothing to write in this state", d)
				return
			}
			if !willWait {
				pred := m.Step(d)
				if !classOK(pred.Returned[0].Class, dr) {
					fail("%s returned err=%v, the state machine says %s", d, dr.err, pred.Returned[0].Class)
				}
				dr = nil
			}
		}
		// one more call while a terminal call is queued: it takes effect only after that call
		// (whoever holds the stream's state decides first); judged by the outcome after the release
		var x2 refstream.Op = "none"
		var x2r *callRes
		if dr != nil && (d == refstream.CloseSend || d == refstream.Close || d == refstream.SendError) {
			x2 = parkedX[sched.Choose(len(parkedX), "X2")]
			switch x2 {
			case "none":
			case refstream.SendCancel:
				r := start(x2)
				if !r.returned || !r.flag || r.err != nil {
					fail("SendCancel while a terminal call is queued: returned=%v busy=%v err=%v, want busy", r.returned, r.flag, r.err)
					return
				}
				x2 = "none"
			default:
				x2r = start(x2)
			}
		}
		// release: the parked call completes first
		w.mon.Do("release", nil, func() { w.stalled = false })
		rn.trace = append(rn.trace, "<release>")
		sched.Quiesce()
		m.WriterBusy = false
		if !wr.returned {
			fail("%s never returned after the transport was released; blocked=%v", wop, sched.BlockedNow())
			return
		}
		rest := newFrames()
		wantRest, wantClass := 0, refstream.Nil
		if wop == refstream.Send {
			if c := m.SendClass(); c != "" {
				wantClass = c // the stream's send side ended while the message was in flight: stop, report it
			} else {
				wantRest = msgFrames - 1 // the remaining frames of the message
			}
		} else if c := m.CancelClass(); c != "" {
			wantClass = c
		}
		if wop == refstream.SendCancel && wantClass == refstream.Nil {
			wantClass = refstream.False
		}
		var dpred refstream.Prediction
		if dr != nil {
			dpred = m.Step(d)
			wantRest += len(dpred.Emits)
			if d == refstream.Send && len(dpred.Emits) == 1 {
				wantRest += msgFrames - 1 // a message is several frames at split size 2
			}
		}
		if wop == refstream.SendCancel && wantClass != refstream.False {
			if wr.flag || !classOK(wantClass, &callRes{err: wr.err}) {
				fail("%s returned busy=%v err=%v, the state machine says %s", wop, wr.flag, wr.err, wantClass)
			}
		} else if !classOK(wantClass, wr) {
			fail("%s returned err=%v flag=%v after the release, the state machine says %s", wop, wr.err, wr.flag, wantClass)
		}
		if len(rest) != wantRest {
			fail("%d frames emitted after the release (%v), the state machine says %d: nothing may be emitted once the stream has terminated", len(rest), rest, wantRest)
		}
		if dr != nil {
			if !dr.returned {
				fail("%s never returned after the release", d)
			} else if !classOK(dpred.Returned[0].Class, dr) {
				fail("%s returned err=%v after the release, the state machine says %s", d, dr.err, dpred.Returned[0].Class)
			}
		}
		if x2r != nil {
			xpred := m.Step(x2)
			if !x2r.returned {
				fail("%s never returned after the release", x2)
			} else if (x2 == refstream.PInvoke && drpc.ProtocolError.Has(x2r.err)) || (x2 == refstream.PUnk && drpc.InternalError.Has(x2r.err)) {
				// the packet was handed over before the termination and judged after it: reporting it
				// as the protocol violation it is (without any further effect) is within the statement
			} else if len(xpred.Returned) != 1 || !classOK(xpred.Returned[0].Class, x2r) {
				fail("%s (issued while %s was queued) returned err=%v flag=%v, the state machine says %v", x2, d, x2r.err, x2r.flag, xpred.Returned)
			}
		}
		signals()
		sched.Observe(m.Key())
	}
	check := func(e *sched.Exec) string {
		if len(e.Panics) > 0 {
			return "panic: " + e.Panics[0]
		}
		rn, _ := e.State()["run"].(*run)
		if rn != nil && len(rn.fails) > 0 {
			return rn.fails[0]
		}
		return ""
	}
	return &mc.Scenario{Name: "stream[write parked in the transport: prefix ; stall ; W ; X X ; D ; release]", Body: body, Check: check, Model: sched.DataFree, NoCache: true}
}

// modelStates explores the model alone (breadth first) and returns the shortest path to every state.
func modelStates(mf bool, depth int) [][]refstream.Op {
	type node struct {
		m    *refstream.Model
		path []refstream.Op
	}
	seen := map[string]bool{}
	start := &refstream.Model{ManualFlush: mf}
	seen[start.Key()] = true
	frontier := []node{{start, nil}}
	var out [][]refstream.Op
	for d := 0; d < depth; d++ {
		var next []node
		for _, n := range frontier {
			for _, op := range refstream.Alphabet {
				if !n.m.Enabled(op) {
					continue
				}
				c := n.m.Clone()
				c.Step(op)
				if k := c.Key(); !seen[k] {
					seen[k] = true
					p := append(append([]refstream.Op{}, n.path...), op)
					next = append(next, node{c, p})
					out = append(out, p)
				}
			}
		}
		frontier = next
	}
	return out
}

func label(p []refstream.Op) string {
	var s []string
	for _, o := range p {
		s = append(s, string(o))
	}
	return "prefix=[" + strings.Join(s, " ") + "]"
}

// flushParkedScenario: a buffered raw write (what a client's invoke is) ; stall ; W = RawFlush or
// the first receive (which flushes first) parks inside the transport ; up to two calls/packets
// that do not need the write side ; release. The flags and every result are compared with the
// state machine; in particular a stream terminated while the flush was parked must become
// finished once the flush has returned.
func flushParkedScenario() *mc.Scenario {
	body := func() {
		rn := &run{}
		sched.Cur().State()["run"] = rn
		w := &stallWriter{}
		mf := sched.Choose(2, "manual-flush") == 1
		st := drpcstream.NewWithOptions(context.Background(), sid, drpcwire.NewWriter(w, 4096), drpcstream.Options{SplitSize: 2, ManualFlush: mf})
		m := &refstream.Model{ManualFlush: mf}
		fail := func(f string, a ...any) {
			rn.fails = append(rn.fails, fmt.Sprintf("after [%s]: ", strings.Join(rn.trace, " "))+fmt.Sprintf(f, a...))
		}
		signals := func() bool {
			if got := st.IsTerminated(); got != m.Terminated() {
				fail("Terminated=%v, the state machine says %v", got, m.Terminated())
				return false
			}
			if got := st.IsFinished(); got != m.Finished() {
				fail("Finished=%v, the state machine says %v (terminated=%v, a call is parked in the transport=%v, calls in flight=%d)", got, m.Finished(), m.Terminated(), m.WriterBusy, m.InFlight())
				return false
			}
			if got := vs.IsClosed(st.Context().Done()); got != m.Finished() {
				fail("Context().Done() closed=%v, the state machine says %v", got, m.Finished())
				return false
			}
			return true
		}
		calls := 0
		start := func(op refstream.Op) *callRes {
			r := &callRes{op: op}
			c := calls
			calls++
			rn.trace = append(rn.trace, string(op))
			vs.Go(string(op), func() { perform(st, op, c, r) })
			sched.Quiesce()
			return r
		}
		// the buffered write
		pred := m.Step(refstream.RawWrite)
		if r := start(refstream.RawWrite); !r.returned || !classOK(pred.Returned[0].Class, r) || len(w.buf) != 0 {
			fail("RawWrite: returned=%v err=%v bytes on the transport=%d (a raw write is only buffered)", r.returned, r.err, len(w.buf))
			return
		}
		w.mon.Do("stall", nil, func() { w.stalled = true })
		rn.trace = append(rn.trace, "<stall>")
		wop := []refstream.Op{refstream.Flush, refstream.Recv, refstream.RawRecv}[sched.Choose(3, "W")]
		m.Step(wop) // the flush proceeds: the state allows it
		wr := start(wop)
		if wr.returned || len(w.buf) == 0 {
			fail("%s returned=%v with %d bytes handed to the stalled transport, want it parked in its flush", wop, wr.returned, len(w.buf))
			return
		}
		m.WriterBusy = true
		if !signals() {
			return
		}
		// what the state machine says about the parked receive, once something ends it
		var wEnded *refstream.Returned
		for i := 0; i < 2; i++ {
			x := parkedX[sched.Choose(len(parkedX), "X")]
			if x == "none" {
				continue
			}
			if x == refstream.SendCancel {
				if r := start(x); !r.returned || !r.flag || r.err != nil {
					fail("SendCancel while a flush is parked in the transport: returned=%v busy=%v err=%v, want busy", r.returned, r.flag, r.err)
					return
				}
				continue
			}
			pred := m.Step(x)
			r := start(x)
			if !r.returned {
				fail("%s blocks while a flush is parked in the transport", x)
				return
			}
			own := false
			for k := range pred.Returned {
				pr := pred.Returned[k]
				if (pr.Op == refstream.Recv || pr.Op == refstream.RawRecv) && wop != refstream.Flush {
					wEnded = &pr
				} else if pr.Op == x {
					own = true
					if !classOK(pr.Class, r) {
						fail("%s returned err=%v flag=%v, the state machine says %s", x, r.err, r.flag, pr.Class)
						return
					}
				}
			}
			if !own {
				fail("%s returned, the state machine has it parked", x)
				return
			}
			if !signals() {
				return
			}
		}
		w.mon.Do("release", nil, func() { w.stalled = false })
		rn.trace = append(rn.trace, "<release>")
		sched.Quiesce()
		m.WriterBusy = false
		switch {
		case wop == refstream.Flush:
			want := refstream.Nil
			if c := m.CancelClass(); c != "" {
				want = c
			}
			if !wr.returned || !classOK(want, wr) {
				fail("RawFlush after the release: returned=%v err=%v, the state machine says %s", wr.returned, wr.err, want)
			}
		case wEnded != nil:
			// (the flush a receive starts with reports a cancellation that happened meanwhile)
			if c := m.CancelClass(); c != "" && wr.returned && classOK(c, wr) {
				break
			}
			if !wr.returned || !classOK(wEnded.Class, wr) {
				fail("%s after the release: returned=%v err=%v, the state machine says %s", wop, wr.returned, wr.err, wEnded.Class)
			}
		default:
			if wr.returned {
				fail("%s returned err=%v after the release, the state machine has it waiting for a message", wop, wr.err)
			}
		}
		if frames, rest, res := refwire.ParseAll(w.buf); res != refwire.OK || len(rest) != 0 || len(frames) == 0 {
			fail("bytes on the writer are not whole frames")
		}
		signals()
		sched.Observe(m.Key())
	}
	check := func(e *sched.Exec) string {
		if len(e.Panics) > 0 {
			return "panic: " + e.Panics[0]
		}
		rn, _ := e.State()["run"].(*run)
		if rn != nil && len(rn.fails) > 0 {
			return rn.fails[0]
		}
		return ""
	}
	return &mc.Scenario{Name: "stream[flush parked in the transport: RawWrite ; stall ; W=flush|first receive ; X X ; release]", Body: body, Check: check, Model: sched.DataFree, NoCache: true}
}

func plans(tier string) []mc.Plan {
	var ps []mc.Plan
	L, depth, free := 5, 8, 2
	if tier == "thorough" {
		L, depth, free = 6, 10, 3
	}
	for _, mf := range []bool{false, true} {
		ps = append(ps, mc.Plan{Scen: scenario(mf, nil, L, "all sequences"), Bounds: []int{0}, Split: true})
		for _, p := range modelStates(mf, depth) {
			if len(p) <= L-free {
				continue // covered by the exhaustive part
			}
			ps = append(ps, mc.Plan{Scen: scenario(mf, p, free, label(p)), Bounds: []int{0}})
		}
	}
	ps = append(ps, mc.Plan{Scen: parkedScenario(), Bounds: []int{0}, Split: true})
	// a receive whose decoder rejects the message: the message is consumed all the same
	bad := []refstream.Op{recvBad, refstream.Recv, refstream.PMsg, refstream.Send, refstream.CloseSend, refstream.Close, refstream.SendError, refstream.Cancel, refstream.PCloseSend, refstream.PClose, refstream.PError}
	ps = append(ps, mc.Plan{Scen: scenarioOver(bad, false, nil, 4, "all sequences with a failing decoder"), Bounds: []int{0}, Split: true})
	ps = append(ps, mc.Plan{Scen: flushParkedScenario(), Bounds: []int{0}})
	if tier == "thorough" {
		// one scheduling deviation inside every sequence of length 3
		ps = append(ps, mc.Plan{Scen: scenario(false, nil, 3, "all sequences (1 scheduling deviation)"), Bounds: []int{1}, Split: true})
	}
	return ps
}

func init() {
	mc.Register(&mc.Check{ID: "C03", Plans: plans, Budget: map[string]int{"quick": 120, "thorough": 1500},
		Notes: "C03: a single real drpcstream.Stream over a recording writer; the operation/packet sequence is a data choice of the explorer (all sequences over the 17-symbol alphabet up to length L under the default schedule, each symbol in its own goroutine until it returns or blocks), then from every reference-model state found by breadth-first search (shortest path replayed on a fresh object) all sequences of 2-3 more symbols; after every step results, emitted frames and the terminated/finished/context signals are compared with harness/refstream."})
}
