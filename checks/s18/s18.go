// Package s18: C18 - the wire format stays compatible with the released v0.0.17
// peer (its drpcwire and drpcmetadata are vendored verbatim under verif/old17).
package s18

import (
	"bytes"
	"context"
	"encoding/json"
	"errors"
	"fmt"
	"io"
	"reflect"
	"strings"


	"storj.io/drpc/drpcerr"
	"storj.io/drpc/drpcmetadata"
	"storj.io/drpc/drpcstream"
	"storj.io/drpc/drpcwire"

	"verif/harness/enc"
	oldmeta "verif/old17/drpcmetadata"
	oldwire "verif/old17/drpcwire"
	"verif/seq"
)

// PktSpec is one packet of a sequence.
type PktSpec struct {
	Kind    uint8
	Control bool
	Len     int
	Split   int // frames are at most Split bytes (0 = one frame)
	IDStep  int // 0: next message; 1: skip a message id; 2: next stream
}

func (p PktSpec) String() string {
	return fmt.Sprintf("k%d c%v len%d split%d id+%d", p.Kind, p.Control, p.Len, p.Split, p.IDStep)
}

type flatPkt struct {
	Kind    uint8
	S, M    uint64
	Control bool
	Data    []byte
}

func pktAlphabet(thorough bool) []PktSpec {
	kinds := []uint8{1, 2, 3, 4, 5, 6, 7, 0, 8, 63}
	var out []PktSpec
	for _, k := range kinds {
		for _, c := range []bool{false, true} {
			shapes := [][2]int{{0, 0}, {1, 0}, {5, 2}}
			if thorough {
				shapes = [][2]int{{0, 0}, {1, 0}, {3, 4}, {4, 4}, {5, 4}, {5, 2}}
			}
			for _, sh := range shapes {
				steps := []int{0}
				if k == 2 || k == 1 {
					steps = []int{0, 1, 2}
				}
				for _, st := range steps {
					out = append(out, PktSpec{Kind: k, Control: c, Len: sh[0], Split: sh[1], IDStep: st})
				}
			}
		}
	}
	return out
}

func materialise(seqn []PktSpec) []flatPkt {
	s, m := uint64(1), uint64(0)
	var out []flatPkt
	for i, p := range seqn {
		switch p.IDStep {
		case 0:
			m++
		case 1:
			m += 2
		case 2:
			s++
			m = 1
		}
		data := make([]byte, p.Len)
		for j := range data {
			data[j] = byte(i*16 + j + 1)
		}
		out = append(out, flatPkt{Kind: p.Kind, S: s, M: m, Control: p.Control, Data: data})
	}
	return out
}

// newToOld: bytes produced by the current writer/splitter, decoded by the v0.0.17 reader.
func newToOld(seqn []PktSpec) string {
	pk := materialise(seqn)
	var buf bytes.Buffer
	w := drpcwire.NewWriter(&buf, 8)
	for i, p := range pk {
		pkt := drpcwire.Packet{Data: p.Data, ID: drpcwire.ID{Stream: p.S, Message: p.M}, Kind: drpcwire.Kind(p.Kind), Control: p.Control}
		n := seqn[i].Split
		if n == 0 {
			n = -1
		}
		if err := drpcwire.SplitN(pkt, n, w.WriteFrame); err != nil {
			return fmt.Sprintf("current writer failed: %v", err)
		}
	}
	if err := w.Flush(); err != nil {
		return fmt.Sprintf("current writer flush failed: %v", err)
	}
	rd := oldwire.NewReader(bytes.NewReader(buf.Bytes()))
	var want []flatPkt
	for _, p := range pk {
		if !p.Control {
			want = append(want, p)
		}
	}
	for i := 0; ; i++ {
		got, err := rd.ReadPacket()
		if err != nil {
			if !errors.Is(err, io.EOF) {
				return fmt.Sprintf("the v0.0.17 reader rejects what the current writer emitted: %v (after %d packets)", err, i)
			}
			if i != len(want) {
				return fmt.Sprintf("the v0.0.17 reader decoded %d packets, %d non-control packets were written", i, len(want))
			}
			return ""
		}
		if i >= len(want) {
			return fmt.Sprintf("the v0.0.17 reader decoded an extra packet %v", got)
		}
		w := want[i]
		if uint8(got.Kind) != w.Kind || got.ID.Stream != w.S || got.ID.Message != w.M || !bytes.Equal(got.Data, w.Data) {
			return fmt.Sprintf("packet %d decoded by v0.0.17 as kind=%d id=%d.%d len=%d, written kind=%d id=%d.%d len=%d", i, got.Kind, got.ID.Stream, got.ID.Message, len(got.Data), w.Kind, w.S, w.M, len(w.Data))
		}
	}
}

// oldToNew: bytes produced by the v0.0.17 writer/splitter, decoded by the current reader.
func oldToNew(seqn []PktSpec) string {
	pk := materialise(seqn)
	var buf bytes.Buffer
	w := oldwire.NewWriter(&buf, 8)
	ctx := context.Background()
	for i, p := range pk {
		if p.Control {
			continue // the released writer never sets the control bit
		}
		pkt := oldwire.Packet{Data: p.Data, ID: oldwire.ID{Stream: p.S, Message: p.M}, Kind: oldwire.Kind(p.Kind)}
		n := seqn[i].Split
		if n == 0 {
			n = -1
		}
		if err := oldwire.SplitN(ctx, pkt, n, w.WriteFrame); err != nil {
			return fmt.Sprintf("v0.0.17 writer failed: %v", err)
		}
	}
	_ = w.Flush(ctx)
	rd := drpcwire.NewReader(bytes.NewReader(buf.Bytes()))
	i := 0
	for _, p := range pk {
		if p.Control {
			continue
		}
		got, err := rd.ReadPacket()
		if err != nil {
			return fmt.Sprintf("the current reader fails on what v0.0.17 emitted: %v (packet %d)", err, i)
		}
		if uint8(got.Kind) != p.Kind || got.ID.Stream != p.S || got.ID.Message != p.M || !bytes.Equal(got.Data, p.Data) || got.Control {
			return fmt.Sprintf("packet %d decoded by the current reader as kind=%d id=%d.%d len=%d ctl=%v, v0.0.17 wrote kind=%d id=%d.%d len=%d", i, got.Kind, got.ID.Stream, got.ID.Message, len(got.Data), got.Control, p.Kind, p.S, p.M, len(p.Data))
		}
		i++
	}
	if _, err := rd.ReadPacket(); !errors.Is(err, io.EOF) {
		return fmt.Sprintf("the current reader finds more than v0.0.17 wrote: %v", err)
	}
	return ""
}

func pktFamily(name string, thorough bool, maxLen int, f func([]PktSpec) string) seq.Family {
	return seq.Family{
		Name: name,
		Run: func(ctx *seq.Ctx) {
			al := pktAlphabet(thorough)
			var shards [][]int
			for i := range al {
				shards = append(shards, []int{i})
			}
			seq.Parallel(len(shards), func(si int) {
				idx := append([]int{}, shards[si]...)
				n := 0
				var rec func()
				rec = func() {
					cur := make([]PktSpec, len(idx))
					for i, k := range idx {
						cur[i] = al[k]
					}
					n++
					if msg := f(cur); msg != "" {
						ctx.Fail(msg+" sequence="+fmt.Sprint(cur), cur)
					}
					if len(idx) == maxLen || ctx.Failed() || (n%512 == 0 && ctx.Expired()) {
						return
					}
					for k := range al {
						idx = append(idx, k)
						rec()
						idx = idx[:len(idx)-1]
					}
				}
				rec()
				ctx.Count(n, 2*n, n)
			})
			ctx.Class("compatible")
			ctx.Sample([]PktSpec{{Kind: 2, Len: 5, Split: 2}, {Kind: 40, Control: true, Len: 1}, {Kind: 6}})
		},
		Replay: func(in json.RawMessage) string {
			var s []PktSpec
			_ = json.Unmarshal(in, &s)
			return f(s)
		},
	}
}

// ---- what the real stream layer emits, read by the v0.0.17 reader ----

var streamOps = []string{"send1", "send5", "closesend", "close", "senderr", "sendcancel", "cancel", "flush", "pkt-closesend", "pkt-close", "pkt-error", "pkt-cancel", "pkt-unknown-ctl"}

func streamCase(ops []string, split int) string {
	var buf bytes.Buffer
	st := drpcstream.NewWithOptions(context.Background(), 3, drpcwire.NewWriter(&buf, 0), drpcstream.Options{SplitSize: split})
	var sent [][2]any // kind, data of every non-control packet the calls below should have emitted
	for i, op := range ops {
		pre := buf.Len()
		_ = pre
		switch op {
		case "send1", "send5":
			n := 1
			if op == "send5" {
				n = 5
			}
			out := bytes.Repeat([]byte{byte(i + 1)}, n)
			if err := st.MsgSend(&out, enc.Bytes{}); err == nil {
				sent = append(sent, [2]any{uint8(2), out})
			}
		case "closesend":
			was := buf.Len()
			_ = st.CloseSend()
			if buf.Len() > was {
				sent = append(sent, [2]any{uint8(6), []byte(nil)})
			}
		case "close":
			was := buf.Len()
			_ = st.Close()
			if buf.Len() > was {
				sent = append(sent, [2]any{uint8(5), []byte(nil)})
			}
		case "senderr":
			was := buf.Len()
			e := drpcerr.WithCode(errors.New("boom"), 9)
			_ = st.SendError(e)
			if buf.Len() > was {
				sent = append(sent, [2]any{uint8(3), drpcwire.MarshalError(e)})
			}
		case "sendcancel":
			_, _ = st.SendCancel(context.Canceled) // control packet: a v0.0.17 reader skips it
		case "cancel":
			st.Cancel(context.Canceled)
		case "flush":
			_ = st.RawFlush()
		case "pkt-closesend":
			_ = st.HandlePacket(drpcwire.Packet{ID: drpcwire.ID{Stream: 3, Message: uint64(i + 1)}, Kind: drpcwire.KindCloseSend})
		case "pkt-close":
			_ = st.HandlePacket(drpcwire.Packet{ID: drpcwire.ID{Stream: 3, Message: uint64(i + 1)}, Kind: drpcwire.KindClose})
		case "pkt-error":
			_ = st.HandlePacket(drpcwire.Packet{ID: drpcwire.ID{Stream: 3, Message: uint64(i + 1)}, Kind: drpcwire.KindError, Data: drpcwire.MarshalError(errors.New("remote"))})
		case "pkt-cancel":
			_ = st.HandlePacket(drpcwire.Packet{ID: drpcwire.ID{Stream: 3, Message: uint64(i + 1)}, Kind: drpcwire.KindCancel, Control: true})
		case "pkt-unknown-ctl":
			if err := st.HandlePacket(drpcwire.Packet{ID: drpcwire.ID{Stream: 3, Message: uint64(i + 1)}, Kind: drpcwire.Kind(50), Control: true, Data: []byte("future")}); err != nil {
				return fmt.Sprintf("an unknown control packet disturbed the stream: %v", err)
			}
			if st.IsTerminated() != terminatedBefore(ops[:i]) {
				return "an unknown control packet changed the stream's state"
			}
		}
	}
	rd := oldwire.NewReader(bytes.NewReader(buf.Bytes()))
	for i := 0; ; i++ {
		got, err := rd.ReadPacket()
		if err != nil {
			if !errors.Is(err, io.EOF) {
				return fmt.Sprintf("the v0.0.17 reader rejects the bytes the stream emitted: %v", err)
			}
			if i != len(sent) {
				return fmt.Sprintf("the v0.0.17 reader decoded %d packets, the stream emitted %d non-control packets", i, len(sent))
			}
			return ""
		}
		if i >= len(sent) {
			return fmt.Sprintf("the v0.0.17 reader decoded an unexpected extra packet kind=%d", got.Kind)
		}
		if uint8(got.Kind) != sent[i][0].(uint8) || !bytes.Equal(got.Data, sent[i][1].([]byte)) || got.ID.Stream != 3 {
			return fmt.Sprintf("packet %d decoded by v0.0.17 as kind=%d len=%d, the stream emitted kind=%d len=%d", i, got.Kind, len(got.Data), sent[i][0], len(sent[i][1].([]byte)))
		}
	}
}

// terminatedBefore is the documented effect of the operations on termination.
func terminatedBefore(ops []string) bool {
	sendClosed, recvClosed := false, false
	for _, op := range ops {
		switch op {
		case "close", "senderr", "sendcancel", "cancel", "pkt-close", "pkt-error", "pkt-cancel":
			return true
		case "closesend":
			sendClosed = true
		case "pkt-closesend":
			recvClosed = true
		}
		if sendClosed && recvClosed {
			return true
		}
	}
	return false
}

func streamFamily(maxLen int) seq.Family {
	return seq.Family{
		Name: fmt.Sprintf("stream-api-sequences<=%d", maxLen),
		Run: func(ctx *seq.Ctx) {
			for _, split := range []int{0, 2} {
				var idx []string
				var rec func()
				rec = func() {
					ctx.Count(1, len(idx)+1, 1)
					if msg := streamCase(idx, split); msg != "" {
						ctx.Fail(fmt.Sprintf("%s ops=%v split=%d", msg, idx, split), map[string]any{"ops": append([]string{}, idx...), "split": split})
					}
					if len(idx) == maxLen || ctx.Failed() {
						return
					}
					for _, op := range streamOps {
						idx = append(idx, op)
						rec()
						idx = idx[:len(idx)-1]
					}
				}
				rec()
			}
			ctx.Class("compatible")
			ctx.Sample([]string{"send5", "sendcancel", "send1"})
		},
		Replay: func(in json.RawMessage) string {
			var v struct {
				Ops   []string
				Split int
			}
			_ = json.Unmarshal(in, &v)
			return streamCase(v.Ops, v.Split)
		},
	}
}

// ---- unknown control packets inside a real RPC ----

// ---- packets at the released reader's size limit ----

// limitCase writes one packet of total bytes in frames of n bytes with one version's writer and
// reads it with both readers: they must agree on accepting it and on its content (the released
// reader accepts a packet of up to 4 MiB).
func limitCase(total, n int, oldWriter bool) string {
	data := make([]byte, total)
	for i := range data {
		data[i] = byte(i * 31)
	}
	var buf bytes.Buffer
	if oldWriter {
		w := oldwire.NewWriter(&buf, 1<<16)
		if err := oldwire.SplitN(context.Background(), oldwire.Packet{Data: data, ID: oldwire.ID{Stream: 1, Message: 1}, Kind: oldwire.KindMessage}, n, w.WriteFrame); err != nil {
			return fmt.Sprintf("v0.0.17 writer failed: %v", err)
		}
		_ = w.Flush(context.Background())
	} else {
		w := drpcwire.NewWriter(&buf, 1<<16)
		if err := drpcwire.SplitN(drpcwire.Packet{Data: data, ID: drpcwire.ID{Stream: 1, Message: 1}, Kind: drpcwire.KindMessage}, n, w.WriteFrame); err != nil {
			return fmt.Sprintf("current writer failed: %v", err)
		}
		_ = w.Flush()
	}
	op, oerr := oldwire.NewReader(bytes.NewReader(buf.Bytes())).ReadPacket()
	np, nerr := drpcwire.NewReader(bytes.NewReader(buf.Bytes())).ReadPacket()
	switch {
	case (oerr == nil) != (nerr == nil):
		return fmt.Sprintf("a %d-byte packet in %d-byte frames: the v0.0.17 reader says err=%v, the current reader says err=%v", total, n, oerr, nerr)
	case oerr == nil && (!bytes.Equal(op.Data, data) || !bytes.Equal(np.Data, data)):
		return fmt.Sprintf("a %d-byte packet in %d-byte frames is decoded with different content (old %d bytes, new %d bytes)", total, n, len(op.Data), len(np.Data))
	case (oerr == nil) != (total <= 4<<20):
		return fmt.Sprintf("reference self-check: v0.0.17 accepted=%v a %d-byte packet", oerr == nil, total)
	}
	return ""
}

func limitFamily() seq.Family {
	type c struct {
		Total, N  int
		OldWriter bool
	}
	return seq.Family{
		Name: "packets-at-the-size-limit",
		Run: func(ctx *seq.Ctx) {
			var cases []c
			for _, total := range []int{4<<20 - 1, 4 << 20, 4<<20 + 1, 1<<20 + 1, 1 << 20} {
				for _, n := range []int{1024, 65536, 1<<20 - 64} {
					for _, ow := range []bool{true, false} {
						cases = append(cases, c{total, n, ow})
					}
				}
			}
			seq.Parallel(len(cases), func(i int) {
				x := cases[i]
				ctx.Count(1, 3, 1)
				if m := limitCase(x.Total, x.N, x.OldWriter); m != "" {
					ctx.Fail(m, x)
				}
			})
			ctx.Class("agree")
			ctx.Sample(c{4 << 20, 65536, true})
		},
		Replay: func(in json.RawMessage) string {
			var x c
			_ = json.Unmarshal(in, &x)
			return limitCase(x.Total, x.N, x.OldWriter)
		},
	}
}

// ---- metadata both ways ----

var strs = []string{"", "a", "b", strings.Repeat("x", 127), strings.Repeat("y", 128), strings.Repeat("z", 300), "k=v;%"}

func metaCase(m map[string]string) string {
	nb, err := drpcmetadata.Encode(nil, m)
	if err != nil {
		return fmt.Sprintf("current Encode: %v", err)
	}
	om, err := oldmeta.Decode(nb)
	if err != nil || !same(om, m) {
		return fmt.Sprintf("v0.0.17 decodes the current encoding as %v (err=%v), want %v", om, err, m)
	}
	ob, err := oldmeta.Encode(nil, m)
	if err != nil {
		return fmt.Sprintf("v0.0.17 Encode: %v", err)
	}
	nm, err := drpcmetadata.Decode(ob)
	if err != nil || !same(nm, m) {
		return fmt.Sprintf("the current decoder reads the v0.0.17 encoding as %v (err=%v), want %v", nm, err, m)
	}
	return ""
}

func same(a, b map[string]string) bool {
	if len(a) == 0 && len(b) == 0 {
		return true
	}
	return reflect.DeepEqual(a, b)
}

func metaFamily(maxEntries int) seq.Family {
	return seq.Family{
		Name: fmt.Sprintf("metadata-maps<=%d", maxEntries),
		Run: func(ctx *seq.Ctx) {
			var rec func(m map[string]string, start, left int)
			rec = func(m map[string]string, start, left int) {
				ctx.Count(1, 4, 1)
				if msg := metaCase(m); msg != "" {
					ctx.Fail(msg, m)
				}
				if left == 0 {
					return
				}
				for k := start; k < len(strs); k++ {
					for v := range strs {
						m[strs[k]] = strs[v]
						rec(m, k+1, left-1)
						delete(m, strs[k])
					}
				}
			}
			rec(map[string]string{}, 0, maxEntries)
			ctx.Class("compatible")
			ctx.Sample(map[string]string{"a": "", "": strings.Repeat("x", 127)})
		},
		Replay: func(in json.RawMessage) string {
			var m map[string]string
			_ = json.Unmarshal(in, &m)
			return metaCase(m)
		},
	}
}

func families(tier string) []seq.Family {
	if tier == "quick" {
		return []seq.Family{
			pktFamily("current-writer->v0.0.17-reader<=3", false, 3, newToOld),
			pktFamily("v0.0.17-writer->current-reader<=3", false, 3, oldToNew),
			streamFamily(4), metaFamily(2), limitFamily(),
		}
	}
	return []seq.Family{
		pktFamily("current-writer->v0.0.17-reader<=3/rich", true, 3, newToOld),
		pktFamily("current-writer->v0.0.17-reader<=4", false, 4, newToOld),
		pktFamily("v0.0.17-writer->current-reader<=3/rich", true, 3, oldToNew),
		pktFamily("v0.0.17-writer->current-reader<=4", false, 4, oldToNew),
		streamFamily(5), metaFamily(3), limitFamily(),
	}
}

func init() {
	seq.Register(&seq.Check{ID: "C18", Families: families, Budget: map[string]int{"quick": 90, "thorough": 900},
		Notes: "C18: packet sequences of length <=3 (4) over kinds {1..7,0,8,63} x control x payload/split shapes x id steps, written by the current Writer/SplitN and read by the v0.0.17 Reader (expect the same packets minus control ones), and written by the v0.0.17 writer and read by the current Reader; the bytes the real Stream API emits for all sequences of <=4 (5) non-blocking operations, read by the v0.0.17 reader; unknown control packets leave a live Stream undisturbed; metadata maps encoded by each version and decoded by the other. The v0.0.17 sources are vendored verbatim (monkit replaced by a no-op)."})
}
