// Package c12: closing a connection / manager / server at any moment completes,
// closes the transport exactly once, fails every pending and later call, cancels
// active stream contexts and leaves no library goroutine behind.
package c12

import (
	"context"
	"fmt"
	"net"
	"strings"
	"time"

	"storj.io/drpc"
	"storj.io/drpc/drpcconn"
	"storj.io/drpc/drpcserver"

	"verif/checks/c05"
	"verif/engine/sched"
	"verif/engine/vs"
	"verif/harness/enc"
	"verif/harness/refwire"
	"verif/harness/tr"
	"verif/harness/wl"
	"verif/mc"
)

func handler(env *wl.Env, stream drpc.Stream, rpc string) error {
	if rpc == "/silent" {
		// a handler that is running when the close happens: it ends when its stream context ends
		vs.Recv(stream.Context().Done())
		env.Facts["silentCtxDone"] = true
		return stream.Context().Err()
	}
	return c05.Handler(env, stream, rpc)
}

var extra map[string]func(env *wl.Env)

func init() { extra = extraWorkloads }

var extraWorkloads = map[string]func(env *wl.Env){
	"idle": func(env *wl.Env) {},
	"running": func(env *wl.Env) {
		s, err := env.Conn.NewStream(context.Background(), "/silent", enc.Bytes{})
		if err != nil {
			return
		}
		var in []byte
		env.Facts["stream"] = s
		_ = s.MsgRecv(&in, enc.Bytes{}) // parked until the close
	},
	// a peer that sends an undecodable invoke-metadata packet: the server gives the connection
	// up; everything must still be released
	"badmeta": func(env *wl.Env) {
		env.Srv.Inject(refwire.Append(nil, refwire.Frame{Data: []byte{0xff, 0x01}, ID: refwire.ID{Stream: 1, Message: 1}, Kind: 7, Done: true}))
		in, out := enc.Payload('c', 0, 0, enc.MinPayload), []byte(nil)
		_ = env.Conn.Invoke(context.Background(), "/uA", enc.Bytes{}, &in, &out)
	},
	// RPC 1 ends by itself and its context is cancelled at the same moment (the watcher may find
	// the stream already finished); RPC 2 then has a receive pending when the close comes
	"cleancancel-then-running": func(env *wl.Env) {
		ctx, cancel := context.WithCancel(context.Background())
		if s, err := env.Conn.NewStream(ctx, "/ssD", enc.Bytes{}); err == nil {
			_ = s.Close()
			wl.Cancel(cancel)
		}
		extra["running"](env)
	},
	"parked": func(env *wl.Env) { // an operation parked inside a stalled transport
		s, err := env.Conn.NewStream(context.Background(), "/silent", enc.Bytes{})
		if err != nil {
			return
		}
		out := enc.Payload('P', 0, 0, enc.MinPayload)
		_ = s.MsgSend(&out, enc.Bytes{})
	},
}

func workload(name string) func(env *wl.Env) {
	if f, ok := extra[name]; ok {
		return f
	}
	return c05.Workloads[name]
}

// closeBy: "conn" = client Conn.Close, "srvctx" = cancel the context of ServeOne
func scenario(cfg wl.Config, wname, closeBy string) *mc.Scenario {
	name := fmt.Sprintf("close[%s | %s | by=%s]", cfg, wname, closeBy)
	body := func() {
		env := wl.NewEnv(cfg, handler)
		c05.InitLog(env)
		if wname == "parked" {
			env.Cli.StallInit()
		}
		done, closerDone := false, false
		var closeErr error
		vs.Go("client", func() { workload(wname)(env); done = true })
		vs.Go("closer", func() {
			if closeBy == "conn" {
				closeErr = env.Conn.Close()
			} else {
				wl.Cancel(env.SCancel)
			}
			closerDone = true
		})
		sched.Quiesce()
		f := map[string]any{}
		f["done"], f["closerDone"], f["closeErr"] = done, closerDone, closeErr
		f["blocked"] = wl.BlockedSummary(sched.BlockedNow())
		f["lib"] = wl.BlockedSummary(wl.LibBlocked(sched.BlockedNow()))
		f["nlib"] = len(wl.LibBlocked(sched.BlockedNow()))
		f["serveDone"] = env.ServeDone
		f["active"] = env.Active
		f["closed"] = env.ConnClosed()
		if s, ok := env.Facts["stream"].(drpc.Stream); ok {
			// judged at quiescence: the context ends when the stream is finished, which the close
			// guarantees by the time it has returned, not necessarily when the failed call returns
			env.Facts["streamCtxDone"] = vs.IsClosed(s.Context().Done())
		}
		if done && closerDone {
			lateDone := false
			var e1, e2 error
			vs.Go("late", func() {
				in, out := enc.Payload('Z', 0, 0, enc.MinPayload), []byte(nil)
				e1 = env.Conn.Invoke(context.Background(), "/uZ", enc.Bytes{}, &in, &out)
				_, e2 = env.Conn.NewStream(context.Background(), "/uY", enc.Bytes{})
				lateDone = true
			})
			sched.Quiesce()
			f["lateDone"], f["late1"], f["late2"] = lateDone, e1, e2
		}
		// closing again (teardown) must not close the transport a second time
		env.TeardownExplored()
		f["cliCloses"], f["srvCloses"] = env.Cli.Closes, env.Srv.Closes
		f["libEnd"] = wl.BlockedSummary(wl.LibBlocked(sched.BlockedNow()))
		f["nlibEnd"] = len(wl.LibBlocked(sched.BlockedNow()))
		f["serveDoneEnd"] = env.ServeDone
		env.Facts["snap"] = f
		sched.Observef("done=%v closer=%v closes=%d/%d", done, closerDone, env.Cli.Closes, env.Srv.Closes)
	}
	check := func(e *sched.Exec) string {
		if m := wl.Basic(e); m != "" {
			return m
		}
		env := wl.GetEnv(e)
		f, _ := env.Facts["snap"].(map[string]any)
		if f == nil {
			// the body's own (second, idempotent) Close in the teardown did not come back
			return "closing the connection a second time never returned; blocked=" + wl.BlockedSummary(e.Blocked)
		}
		if d, _ := f["closerDone"].(bool); !d {
			return fmt.Sprintf("Close never returned; blocked=%v", f["blocked"])
		}
		if d, _ := f["done"].(bool); !d {
			return fmt.Sprintf("a pending call never returned after Close; blocked=%v", f["blocked"])
		}
		if n, _ := f["active"].(int); n != 0 {
			return fmt.Sprintf("a handler is still running after the close (its stream context was not cancelled); blocked=%v", f["blocked"])
		}
		if n, _ := f["nlib"].(int); n != 0 {
			return fmt.Sprintf("library goroutines left behind after the close: %v", f["lib"])
		}
		if d, _ := f["serveDone"].(bool); !d {
			return fmt.Sprintf("ServeOne did not return after the connection was closed; blocked=%v", f["blocked"])
		}
		if c, _ := f["closed"].(bool); !c {
			return "the client connection does not report closed after the close"
		}
		if ld, ok := f["lateDone"].(bool); ok {
			if !ld {
				return "a call issued after the close hangs"
			}
			if f["late1"] == nil || f["late2"] == nil {
				return "a call issued after the close succeeded"
			}
		}
		if n := f["cliCloses"].(int); n != 1 {
			return fmt.Sprintf("client transport closed %d times (want exactly once)", n)
		}
		if n := f["srvCloses"].(int); n != 1 {
			return fmt.Sprintf("server transport closed %d times (want exactly once)", n)
		}
		if v, ok := env.Facts["streamCtxDone"].(bool); ok && !v {
			return "the stream context of the active client stream is not done after the close"
		}
		if m := c05.DataClause(env); m != "" {
			return m
		}
		return ""
	}
	return &mc.Scenario{Name: name, Body: body, Check: check, Model: sched.Deviation, NoCache: true}
}

// ---- Server.Serve over a fake listener ----

type addr struct{}

func (addr) Network() string { return "model" }
func (addr) String() string  { return "model" }

// netConn makes a model transport end look like a net.Conn.
type netConn struct{ *tr.End }

func (netConn) LocalAddr() net.Addr                { return addr{} }
func (netConn) RemoteAddr() net.Addr               { return addr{} }
func (netConn) SetDeadline(t time.Time) error      { return nil }
func (netConn) SetReadDeadline(t time.Time) error  { return nil }
func (netConn) SetWriteDeadline(t time.Time) error { return nil }

type listener struct {
	mon      vs.Monitor
	queue    []net.Conn
	closed   bool
	tempErrs int // the next Accept calls fail with a temporary error
	Closes   int
	accepted []*tr.End // transports handed out by Accept
}

type tempErr struct{}

func (tempErr) Error() string   { return "temporary accept failure" }
func (tempErr) Timeout() bool   { return false }
func (tempErr) Temporary() bool { return true }

func (l *listener) Accept() (c net.Conn, err error) {
	l.mon.Do("lis.Accept", func() bool { return len(l.queue) > 0 || l.closed || l.tempErrs > 0 }, func() {
		if l.closed {
			err = net.ErrClosed
			return
		}
		if l.tempErrs > 0 {
			l.tempErrs--
			err = tempErr{}
			return
		}
		c, l.queue = l.queue[0], l.queue[1:]
		l.accepted = append(l.accepted, c.(netConn).End)
	})
	return c, err
}
func (l *listener) Close() error {
	var backlog []net.Conn
	l.mon.Do("lis.Close", nil, func() { l.closed = true; l.Closes++; backlog, l.queue = l.queue, nil })
	for _, c := range backlog {
		c.(netConn).End.EnvClose() // the OS resets connections still in the accept backlog
	}
	return nil
}
func (l *listener) Addr() net.Addr { return addr{} }
func (l *listener) push(c net.Conn) {
	l.mon.Do("lis.push", nil, func() { l.queue = append(l.queue, c) })
}

type serveState struct {
	returnedHandlers, enteredHandlers int
	serveReturned                     bool
	handlersAtReturn                  int
	fails                             []string
}

type srvHandler struct{ st *serveState }

func (h srvHandler) HandleRPC(stream drpc.Stream, rpc string) error {
	h.st.enteredHandlers++
	defer func() { h.st.returnedHandlers++ }()
	if rpc == "/silent" {
		vs.Recv(stream.Context().Done())
		return stream.Context().Err()
	}
	return wl.Echo(stream, rpc)
}

func serveScenario(nconn int, kind string, stopBy string) *mc.Scenario {
	name := fmt.Sprintf("serve[conns=%d rpc=%s stop=%s]", nconn, kind, stopBy)
	body := func() {
		st := &serveState{}
		sched.Cur().State()["serve"] = st
		lis := &listener{}
		if stopBy == "temp-then-ctx" {
			lis.tempErrs = 2 // Serve backs off on a (virtual) timer and then goes on accepting
		}
		srv := drpcserver.New(srvHandler{st})
		ctx, cancel := context.WithCancel(context.Background())
		var ends []*tr.End
		vs.Go("serve", func() {
			_ = srv.Serve(ctx, lis)
			st.serveReturned = true
			st.handlersAtReturn = st.enteredHandlers - st.returnedHandlers
			// "Serve returns only after every connection it accepted has been fully torn down"
			for _, e := range lis.accepted {
				if !e.IsClosed() {
					st.fails = append(st.fails, fmt.Sprintf("Serve returned while the accepted transport %s was still open (its connection has not been torn down)", e.Name))
				}
			}
		})
		clientsDone := 0
		for i := 0; i < nconn; i++ {
			c, s := tr.New(fmt.Sprintf("cli%d", i), fmt.Sprintf("srv%d", i), tr.Options{Cap: -1})
			ends = append(ends, c, s)
			lis.push(netConn{s})
			conn := drpcconn.New(c)
			vs.Go(fmt.Sprintf("client%d", i), func() {
				in, out := []byte("x"), []byte(nil)
				_ = conn.Invoke(context.Background(), "/"+kind, enc.Bytes{}, &in, &out)
				clientsDone++
			})
		}
		vs.Go("stopper", func() {
			if stopBy == "ctx" || stopBy == "temp-then-ctx" {
				wl.Cancel(cancel)
			} else {
				_ = lis.Close()
			}
		})
		sched.Quiesce()
		if stopBy == "lis" {
			// closing the listener makes Accept fail; Serve must still wait for its connections
			if st.serveReturned && st.handlersAtReturn != 0 {
				st.fails = append(st.fails, "Serve returned while a handler of an accepted connection was still running")
			}
			wl.Cancel(cancel)
			sched.Quiesce()
		}
		if !st.serveReturned {
			st.fails = append(st.fails, "Serve did not return after its context was cancelled; blocked="+wl.BlockedSummary(sched.BlockedNow()))
		} else if st.handlersAtReturn != 0 {
			st.fails = append(st.fails, "Serve returned while a handler of an accepted connection was still running")
		}
		if clientsDone != nconn {
			st.fails = append(st.fails, "a client call is still pending after the server stopped; blocked="+wl.BlockedSummary(sched.BlockedNow()))
		}
		for _, e := range ends {
			if strings.HasPrefix(e.Name, "srv") && e.Closes != 1 && (e.Reads() > 0 || e.Closes > 1) {
				st.fails = append(st.fails, fmt.Sprintf("accepted transport %s closed %d times (want exactly once)", e.Name, e.Closes))
			}
		}
		if lib := wl.LibBlocked(sched.BlockedNow()); len(lib) > 0 {
			// client-side managers end when they read the close of their transport
			st.fails = append(st.fails, "library goroutines left behind after Serve returned: "+wl.BlockedSummary(lib))
		}
		if lis.Closes < 1 {
			st.fails = append(st.fails, "Serve returned without closing the listener")
		}
		sched.Observef("returned=%v handlersAtReturn=%d clients=%d", st.serveReturned, st.handlersAtReturn, clientsDone)
	}
	check := func(e *sched.Exec) string {
		if len(e.Panics) > 0 {
			return "panic: " + e.Panics[0]
		}
		st := e.State()["serve"].(*serveState)
		if len(st.fails) > 0 {
			return "clause: " + st.fails[0]
		}
		return ""
	}
	return &mc.Scenario{Name: name, Body: body, Check: check, Model: sched.Deviation, NoCache: true}
}

func basePlans(tier string) []mc.Plan {
	var ps []mc.Plan
	wnames := []string{"idle", "unary", "sstream", "bidi", "running", "parked", "badmeta", "baddecode", "cleancancel-then-running"}
	cfgs := []wl.Config{{Pipe: tr.Options{Cap: -1}}, {Soft: true, Pipe: tr.Options{Cap: -1}}, {Pipe: tr.Options{Cap: -1}, Inactivity: true}}
	if tier == "thorough" {
		wnames = append(wnames, "cstream", "unary2")
		cfgs = append(cfgs, wl.Config{Pipe: tr.Options{Cap: 0}})
	}
	for _, cfg := range cfgs {
		for _, w := range wnames {
			for _, by := range []string{"conn", "srvctx"} {
				if w == "parked" && by == "srvctx" {
					continue // the stalled client never reaches the server
				}
				bounds := []int{0, 1}
				if (tier == "thorough" || (!cfg.Soft && !cfg.Inactivity)) && (w == "idle" || w == "unary" || w == "running" || w == "parked") && cfg.Pipe.Cap == -1 {
					bounds = []int{0, 1, 2}
				}
				ps = append(ps, mc.Plan{Scen: scenario(cfg, w, by), Bounds: bounds, Split: len(bounds) > 2})
			}
		}
	}
	// cold start: the closer may also strike while the managers' goroutines are still starting
	for _, soft := range []bool{false, true} {
		for _, w := range []string{"idle", "unary"} {
			for _, by := range []string{"conn", "srvctx"} {
				ps = append(ps, mc.Plan{Scen: scenario(wl.Config{Soft: soft, Pipe: tr.Options{Cap: -1}, Cold: true}, w, by), Bounds: []int{0, 1}})
			}
		}
	}
	for _, n := range []int{1, 2} {
		for _, kind := range []string{"echo", "silent"} {
			for _, stop := range []string{"ctx", "lis", "temp-then-ctx"} {
				bounds := []int{0, 1}
				if tier == "thorough" && n == 1 {
					bounds = []int{0, 1, 2}
				}
				ps = append(ps, mc.Plan{Scen: serveScenario(n, kind, stop), Bounds: bounds, Split: len(bounds) > 2})
			}
		}
	}
	return ps
}

// plans adds, to every scenario, a twin explored relative to the reversed default schedule (a
// second reference schedule for the deviation bound).
func plans(tier string) []mc.Plan {
	ps := basePlans(tier)
	if tier == "thorough" {
		return mc.WithReversed(ps, 1)
	}
	return mc.WithReversed(ps, 1)
}

func init() {
	mc.Register(&mc.Check{ID: "C12", Plans: plans, Budget: map[string]int{"quick": 240, "thorough": 1800},
		Notes: "C12: a closer (Conn.Close, cancel of ServeOne's context, cancel of Serve's context, listener close) is placed at every point of each workload by the deviation bound; oracle: Close returns, transports closed exactly once (also after a second Close), pending and later calls fail, active stream contexts end, no library goroutine survives, Serve returns only after its handlers did."})
}
