// Package c19: one-shot signals (drpcsignal.Signal, drpcsignal.Chan) under all
// interleavings, with scheduling points before and after every atomic.
package c19

import (
	"errors"
	"fmt"
	"sort"
	"strings"

	"storj.io/drpc/drpcsignal"

	"verif/engine/sched"
	"verif/engine/vs"
	"verif/mc"
)

var (
	e1 = errors.New("e1")
	e2 = errors.New("e2")
)

type sigState struct {
	setResults []bool  // per Set thread
	setErrs    []error // the error each Set thread used
	seen       []error // every error observed as "set" by any observer
	chans      map[chan struct{}]bool
	fails      []string
	nSetters   int
}

func (st *sigState) fail(f string, a ...any) { st.fails = append(st.fails, fmt.Sprintf(f, a...)) }

// thread programs over a Signal
var sigThreads = map[string]func(s *drpcsignal.Signal, st *sigState, id int){
	"set1": func(s *drpcsignal.Signal, st *sigState, id int) {
		ok := s.Set(e1)
		st.setResults = append(st.setResults, ok)
		st.setErrs = append(st.setErrs, e1)
		// after any Set returned, the signal is set
		if err, isSet := s.Get(); !isSet {
			st.fail("Get not set after Set returned")
		} else {
			st.seen = append(st.seen, err)
		}
		sched.Observef("t%d set1=%v", id, ok)
	},
	"set2": func(s *drpcsignal.Signal, st *sigState, id int) {
		ok := s.Set(e2)
		st.setResults = append(st.setResults, ok)
		st.setErrs = append(st.setErrs, e2)
		if !s.IsSet() {
			st.fail("IsSet false after Set returned")
		}
		sched.Observef("t%d set2=%v", id, ok)
	},
	"get": func(s *drpcsignal.Signal, st *sigState, id int) {
		a, oka := s.Get()
		b, okb := s.Get()
		if oka {
			st.seen = append(st.seen, a)
			if !okb || a != b {
				st.fail("Get went backwards: (%v,%v) then (%v,%v)", a, oka, b, okb)
			}
		} else if a != nil {
			st.fail("Get returned non-nil error with ok=false")
		}
		if okb {
			st.seen = append(st.seen, b)
		}
		sched.Observef("t%d get=%v,%v/%v,%v", id, a, oka, b, okb)
	},
	"err": func(s *drpcsignal.Signal, st *sigState, id int) {
		a := s.Err()
		is := s.IsSet()
		b := s.Err()
		if a != nil {
			st.seen = append(st.seen, a)
			if !is || b != a {
				st.fail("Err then IsSet/Err inconsistent: %v %v %v", a, is, b)
			}
		}
		if is {
			if b == nil {
				st.fail("IsSet but Err nil (all setters use non-nil errors)")
			} else {
				st.seen = append(st.seen, b)
			}
		}
		sched.Observef("t%d err=%v,%v,%v", id, a, is, b)
	},
	"sig": func(s *drpcsignal.Signal, st *sigState, id int) {
		ch := s.Signal()
		if ch == nil {
			st.fail("Signal returned nil channel")
			return
		}
		st.chans[ch] = true
		vs.Recv((<-chan struct{})(ch))
		// the channel is closed only after the value is visible
		err, ok := s.Get()
		if !ok {
			st.fail("channel closed but Get reports not set")
		} else {
			st.seen = append(st.seen, err)
		}
		sched.Observef("t%d sig->%v", id, err)
	},
	"wait": func(s *drpcsignal.Signal, st *sigState, id int) {
		s.Wait()
		if !s.IsSet() {
			st.fail("Wait returned but IsSet false")
		}
		if err := s.Err(); err != nil {
			st.seen = append(st.seen, err)
		}
		sched.Observef("t%d wait done", id)
	},
	"peek": func(s *drpcsignal.Signal, st *sigState, id int) {
		ch := s.Signal()
		if ch == nil {
			st.fail("Signal returned nil channel")
			return
		}
		st.chans[ch] = true
		closed := vs.IsClosed((<-chan struct{})(ch))
		if closed {
			if err, ok := s.Get(); !ok {
				st.fail("channel observed closed but Get reports not set")
			} else {
				st.seen = append(st.seen, err)
			}
		}
		sched.Observef("t%d peek closed=%v", id, closed)
	},
}

var sigNames = []string{"set1", "set2", "get", "err", "sig", "wait", "peek"}

func sigScenario(threads []string) *mc.Scenario {
	name := "signal[" + strings.Join(threads, ",") + "]"
	nSet := 0
	for _, t := range threads {
		if strings.HasPrefix(t, "set") {
			nSet++
		}
	}
	body := func() {
		st := &sigState{chans: map[chan struct{}]bool{}, nSetters: nSet}
		sched.Cur().State()["st"] = st
		s := new(drpcsignal.Signal)
		for i, t := range threads {
			i, f := i, sigThreads[t]
			sched.Go(fmt.Sprintf("t%d-%s", i, t), func() { f(s, st, i) })
		}
	}
	check := func(e *sched.Exec) string {
		st := e.State()["st"].(*sigState)
		if len(e.Panics) > 0 {
			return "panic: " + e.Panics[0]
		}
		if len(st.fails) > 0 {
			return "clause: " + st.fails[0]
		}
		var blocked []string
		for _, b := range e.Blocked {
			blocked = append(blocked, b.Name+"@"+b.What)
		}
		if nSet > 0 {
			if len(blocked) > 0 {
				return "lost wake-up: goroutines still blocked although a Set happened: " + strings.Join(blocked, " ")
			}
			wins := 0
			var winner error
			for i, ok := range st.setResults {
				if ok {
					wins++
					winner = st.setErrs[i]
				}
			}
			if len(st.setResults) != nSet {
				return fmt.Sprintf("only %d of %d Set calls returned", len(st.setResults), nSet)
			}
			if wins != 1 {
				return fmt.Sprintf("%d Set calls returned true (want exactly 1)", wins)
			}
			for _, s := range st.seen {
				if s != winner {
					return fmt.Sprintf("observer saw %v but the winning Set stored %v", s, winner)
				}
			}
		} else {
			// nobody sets: waiters must still be blocked, observers see nothing
			for _, b := range e.Blocked {
				if !strings.Contains(b.Name, "sig") && !strings.Contains(b.Name, "wait") {
					return "unexpected blocked goroutine " + b.Name
				}
			}
			if len(st.seen) > 0 {
				return "observer saw a value although nobody set"
			}
		}
		if len(st.chans) > 1 {
			return fmt.Sprintf("Signal() returned %d different channels", len(st.chans))
		}
		return ""
	}
	return &mc.Scenario{Name: name, Body: body, Check: check, Model: sched.Preemption, Fine: true}
}

// multisets of size k over names (non-decreasing index sequences)
func multisets(names []string, k int) [][]string {
	var out [][]string
	var rec func(start int, cur []string)
	rec = func(start int, cur []string) {
		if len(cur) == k {
			out = append(out, append([]string{}, cur...))
			return
		}
		for i := start; i < len(names); i++ {
			rec(i, append(cur, names[i]))
		}
	}
	rec(0, nil)
	return out
}

// ---- Chan ----

type chanState struct {
	chans map[chan struct{}]bool
	fails []string
}

var chanThreads = map[string]func(c *drpcsignal.Chan, st *chanState, id int){
	"close": func(c *drpcsignal.Chan, st *chanState, id int) {
		c.Close()
		// after Close returned, the channel obtained by Get is closed
		ch := c.Get()
		st.chans[ch] = true
		if _, ok, got := vs.TryRecv((<-chan struct{})(ch)); !got {
			st.fails = append(st.fails, "Close returned but Get() channel is not closed")
		} else if ok {
			st.fails = append(st.fails, "received a value from a closed Chan")
		}
		sched.Observef("t%d close", id)
	},
	// a buffered lazy channel that still holds a value when it is closed: receivers drain the value and
	// then see the channel closed; nobody blocks
	"closep": func(c *drpcsignal.Chan, st *chanState, id int) {
		c.Close()
		ch := c.Get()
		st.chans[ch] = true
		for k := 0; k < 2; k++ {
			if _, _, got := vs.TryRecv((<-chan struct{})(ch)); !got {
				st.fails = append(st.fails, "Close returned on a buffered Chan holding a value, but a receive would block: the channel is not closed")
				break
			}
		}
		sched.Observef("t%d closep", id)
	},
	"getrecv": func(c *drpcsignal.Chan, st *chanState, id int) {
		ch := c.Get()
		if ch == nil {
			st.fails = append(st.fails, "Get returned nil")
			return
		}
		st.chans[ch] = true
		vs.Recv((<-chan struct{})(ch))
		sched.Observef("t%d getrecv done", id)
	},
	"make": func(c *drpcsignal.Chan, st *chanState, id int) {
		c.Make(1)
		ch := c.Get()
		st.chans[ch] = true
		sched.Observef("t%d make cap=%d", id, cap(ch))
	},
	"get": func(c *drpcsignal.Chan, st *chanState, id int) {
		ch := c.Get()
		if ch == nil {
			st.fails = append(st.fails, "Get returned nil")
			return
		}
		st.chans[ch] = true
		sched.Observef("t%d get cap=%d", id, cap(ch))
	},
	"send": func(c *drpcsignal.Chan, st *chanState, id int) {
		c.Send()
		sched.Observef("t%d send done", id)
	},
	"recv": func(c *drpcsignal.Chan, st *chanState, id int) {
		c.Recv()
		sched.Observef("t%d recv done", id)
	},
	"full": func(c *drpcsignal.Chan, st *chanState, id int) {
		f := c.Full()
		sched.Observef("t%d full=%v", id, f)
	},
}

func chanScenario(threads []string) *mc.Scenario {
	name := "chan[" + strings.Join(threads, ",") + "]"
	cnt := map[string]int{}
	for _, t := range threads {
		cnt[t]++
	}
	body := func() {
		st := &chanState{chans: map[chan struct{}]bool{}}
		sched.Cur().State()["st"] = st
		c := new(drpcsignal.Chan)
		if cnt["closep"] > 0 {
			// the channel is buffered and holds a value before anybody else touches it
			c.Make(1)
			c.Send()
		}
		for i, t := range threads {
			i, f := i, chanThreads[t]
			sched.Go(fmt.Sprintf("t%d-%s", i, t), func() { f(c, st, i) })
		}
	}
	check := func(e *sched.Exec) string {
		st := e.State()["st"].(*chanState)
		if len(e.Panics) > 0 {
			return "panic: " + e.Panics[0]
		}
		if len(st.fails) > 0 {
			return "clause: " + st.fails[0]
		}
		if len(st.chans) > 1 {
			return fmt.Sprintf("Get() returned %d different channels", len(st.chans))
		}
		var blocked []string
		for _, b := range e.Blocked {
			blocked = append(blocked, b.Name+"@"+b.What)
		}
		sort.Strings(blocked)
		if cnt["close"]+cnt["closep"] > 0 && len(blocked) > 0 {
			return "goroutines still blocked although Close happened: " + strings.Join(blocked, " ")
		}
		if cnt["close"]+cnt["closep"] == 0 && cnt["getrecv"] == 0 && cnt["send"] == cnt["recv"] && len(blocked) > 0 {
			return "balanced sends and receives but goroutines left blocked (lost wake-up): " + strings.Join(blocked, " ")
		}
		return ""
	}
	return &mc.Scenario{Name: name, Body: body, Check: check, Model: sched.Preemption, Fine: true}
}

func chanCombos(maxK int) [][]string {
	var out [][]string
	// group A: exactly one Close (contract: Close at most once) with observers
	for k := 1; k < maxK; k++ {
		for _, ms := range multisets([]string{"getrecv", "make", "get"}, k) {
			out = append(out, append([]string{"close"}, ms...))
		}
	}
	// group C: a buffered channel closed while it holds a value, with receivers
	for k := 0; k < maxK && k <= 2; k++ {
		for _, ms := range multisets([]string{"getrecv", "recv", "get"}, k) {
			out = append(out, append([]string{"closep"}, ms...))
		}
	}
	// group B: no Close; sends, receives, capacity probes
	for k := 2; k <= maxK; k++ {
		out = append(out, multisets([]string{"make", "get", "send", "recv", "full"}, k)...)
	}
	return out
}

func plans(tier string) []mc.Plan {
	var ps []mc.Plan
	add := func(s *mc.Scenario, bounds ...int) {
		ps = append(ps, mc.Plan{Scen: s, Bounds: bounds})
	}
	if tier == "quick" {
		for k := 2; k <= 3; k++ {
			for _, ms := range multisets(sigNames, k) {
				add(sigScenario(ms), -1)
			}
		}
		for _, ms := range multisets(sigNames, 4) {
			add(sigScenario(ms), 2)
		}
		for _, c := range chanCombos(3) {
			add(chanScenario(c), -1)
		}
		for _, c := range chanCombos(4) {
			if len(c) == 4 {
				add(chanScenario(c), 2)
			}
		}
		return ps
	}
	for k := 2; k <= 4; k++ {
		for _, ms := range multisets(sigNames, k) {
			add(sigScenario(ms), -1)
		}
	}
	for _, ms := range multisets(sigNames, 5) {
		add(sigScenario(ms), 3)
	}
	for _, c := range chanCombos(4) {
		add(chanScenario(c), -1)
	}
	for _, c := range chanCombos(5) {
		if len(c) == 5 {
			add(chanScenario(c), 3)
		}
	}
	return ps
}

func init() {
	mc.Register(&mc.Check{ID: "C19", Plans: plans, Budget: map[string]int{"quick": 60, "thorough": 2400},
		Notes: "C19: Signal and Chan thread programs; fine-grained mode (points before and after every atomic, at every mutex and channel operation); bound -1 = all interleavings."})
	mc.SelfTestScenarios = append(mc.SelfTestScenarios,
		sigScenario([]string{"set1", "set2", "get"}),
		sigScenario([]string{"set1", "sig", "wait", "err"}),
		chanScenario([]string{"close", "getrecv", "make"}),
		chanScenario([]string{"make", "send", "recv", "full"}),
	)
}
