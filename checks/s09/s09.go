// Package s09: C09 - packet reassembly depends only on the byte stream (never on
// how the transport splits it into reads or attaches errors), equals the
// reference reassembly, and is memory-bounded.
package s09

import (
	"bytes"
	"encoding/json"
	"errors"
	"fmt"
	"io"
	"reflect"
	"strings"

	"storj.io/drpc/drpcwire"

	"verif/harness/refwire"
	"verif/seq"
)

// chunked is an io.Reader that returns the stream in the given pieces.
type chunked struct {
	chunks      [][]byte
	errWithLast bool // the final error accompanies the last data
	zeros       int  // (0, nil) reads before every chunk
	zleft       int
	i           int
	final       error
}

func (c *chunked) Read(p []byte) (int, error) {
	if c.i >= len(c.chunks) {
		return 0, c.final
	}
	if c.zleft > 0 {
		c.zleft--
		return 0, nil
	}
	ch := c.chunks[c.i]
	n := copy(p, ch)
	if n < len(ch) {
		c.chunks[c.i] = ch[n:]
	} else {
		c.i++
		c.zleft = c.zeros
	}
	if c.i >= len(c.chunks) && c.errWithLast {
		return n, c.final
	}
	return n, nil
}

type result struct {
	pkts   []string
	class  string
	maxCap int
}

func (r result) key() string { return strings.Join(r.pkts, ",") + " -> " + r.class }

func classify(err error) string {
	s := err.Error()
	switch {
	case errors.Is(err, io.EOF):
		return "eof"
	case errors.Is(err, io.ErrNoProgress) || strings.Contains(s, "return no data or error"):
		return "noprogress"
	case strings.Contains(s, "monotonicity"):
		return "id-monotonicity"
	case strings.Contains(s, "kind change"):
		return "kind-change"
	case strings.Contains(s, "overflow"):
		return "too-big"
	case strings.Contains(s, "varint"):
		return "malformed"
	}
	return "other:" + s
}

// bufCap sums the capacities of all byte-slice fields of the reader (no accessor needed).
func bufCap(r *drpcwire.Reader) int {
	v := reflect.ValueOf(r).Elem()
	total := 0
	for i := 0; i < v.NumField(); i++ {
		f := v.Field(i)
		if f.Kind() == reflect.Slice && f.Type().Elem().Kind() == reflect.Uint8 {
			total += f.Cap()
		}
	}
	return total
}

func pktString(kind uint8, s, m uint64, ctl bool, data []byte) string {
	return fmt.Sprintf("k%d/%d.%d/%v/%x", kind, s, m, ctl, data)
}

func runImpl(chunks [][]byte, max int, errWithLast bool, zeros int) (res result) {
	cp := make([][]byte, len(chunks))
	copy(cp, chunks)
	src := &chunked{chunks: cp, errWithLast: errWithLast, zeros: zeros, zleft: zeros, final: io.EOF}
	rd := drpcwire.NewReaderWithOptions(src, drpcwire.ReaderOptions{MaximumBufferSize: max})
	defer func() {
		if r := recover(); r != nil {
			res.class = fmt.Sprintf("PANIC: %v", r)
		}
	}()
	for i := 0; i < 1000; i++ {
		pkt, err := rd.ReadPacket()
		if c := bufCap(rd); c > res.maxCap {
			res.maxCap = c
		}
		if err != nil {
			res.class = classify(err)
			return res
		}
		res.pkts = append(res.pkts, pktString(uint8(pkt.Kind), pkt.ID.Stream, pkt.ID.Message, pkt.Control, pkt.Data))
	}
	res.class = "endless"
	return res
}

// runRef returns the reference packets and the set of admissible terminal classes.
func runRef(stream []byte, max int) (pkts []string, classes []string) {
	frames, rest, r := refwire.ParseAll(stream)
	ra := refwire.NewReassembler(max)
	for _, f := range frames {
		p, done, e := ra.Feed(f)
		if e != refwire.ErrNone {
			return pkts, []string{string(e)}
		}
		if done {
			pkts = append(pkts, pktString(p.Kind, p.ID.Stream, p.ID.Message, p.Control, p.Data))
		}
	}
	if r == refwire.Bad {
		return pkts, []string{"malformed"}
	}
	if len(rest) > max {
		// an incomplete frame already longer than the maximum when the stream ends: the statement
		// leaves open whether this is reported as oversized or as the end of the stream
		return pkts, []string{"eof", "too-big"}
	}
	return pkts, []string{"eof"}
}

func fr(s, m uint64, kind uint8, done, ctl bool, n int) []byte {
	data := make([]byte, n)
	for i := range data {
		data[i] = byte(0xa0 + i + int(m))
	}
	return refwire.Append(nil, refwire.Frame{Data: data, ID: refwire.ID{Stream: s, Message: m}, Kind: kind, Done: done, Control: ctl})
}

type sym struct {
	name string
	b    []byte
}

func alphabetA(max int) []sym {
	return []sym{
		{"A", fr(1, 1, 2, true, false, 1)},
		{"B", fr(1, 1, 2, false, false, 1)},
		{"C", fr(1, 1, 3, true, false, 1)},
		{"D", fr(1, 2, 2, true, false, max)},
		{"E", fr(1, 2, 2, false, false, max)},
		{"F", fr(2, 1, 2, true, false, 0)},
		{"G", fr(2, 1, 2, true, false, max+1)},
		{"H", fr(0, 1, 2, true, false, 1)},
		{"I", fr(1, 1, 2, true, true, 1)},
		{"J", fr(1, 1, 2, false, true, 0)},
		{"K", fr(1<<63, 1<<63, 2, true, false, 1)},
		{"L", []byte{0x05, 0x81, 0x00, 0x81, 0x00, 0x81, 0x00, 0xee}},  // non-canonical (padded) integers: stream 1, message 1, length 1
		{"M", append([]byte{0x05}, bytes.Repeat([]byte{0x80}, 11)...)}, // varint too long
		{"N", []byte{0x05, 0x01, 0x03, 0x03, 0xdd}},                    // declares 3 payload bytes, carries 1: swallows what follows
		{"O", fr(1, 3, 63, true, false, 2)},
		{"P", fr(3, 1, 1, false, false, 2)},
	}
}

func alphabetB() []sym {
	return []sym{
		{"a", fr(1, 1, 2, true, false, 1)},
		{"b", fr(1, 1, 2, false, false, 1)},
		{"c", fr(1, 2, 2, true, false, 2)},
		{"d", fr(2, 1, 2, true, true, 0)},
	}
}

// partitions calls f with every way to cut stream according to the policy: all compositions
// for short streams, otherwise all single cuts, all pairs of cuts (when two), and uniform sizes.
func partitions(stream []byte, allBelow int, twoCuts bool, f func(chunks [][]byte, label string) bool) {
	n := len(stream)
	if n == 0 {
		f(nil, "empty")
		return
	}
	if n <= allBelow {
		for mask := 0; mask < 1<<(n-1); mask++ {
			var chunks [][]byte
			start := 0
			for i := 1; i < n; i++ {
				if mask&(1<<(i-1)) != 0 {
					chunks = append(chunks, stream[start:i])
					start = i
				}
			}
			chunks = append(chunks, stream[start:])
			if !f(chunks, fmt.Sprintf("mask=%b", mask)) {
				return
			}
		}
		return
	}
	if !f([][]byte{stream}, "whole") {
		return
	}
	for size := 1; size < n; size++ {
		var chunks [][]byte
		for i := 0; i < n; i += size {
			chunks = append(chunks, stream[i:min(i+size, n)])
		}
		if !f(chunks, fmt.Sprintf("uniform=%d", size)) {
			return
		}
	}
	for c := 1; c < n; c++ {
		if !f([][]byte{stream[:c], stream[c:]}, fmt.Sprintf("cut=%d", c)) {
			return
		}
		if twoCuts {
			for d := c + 1; d < n; d++ {
				if !f([][]byte{stream[:c], stream[c:d], stream[d:]}, fmt.Sprintf("cuts=%d,%d", c, d)) {
					return
				}
			}
		}
	}
}

// checkStream evaluates one byte stream under every partition and delivery variant.
func checkStream(stream []byte, max int, allBelow int, twoCuts bool) (msg string, runs int, class string) {
	refPkts, refClasses := runRef(stream, max)
	limit := 4*max + 32*1024
	var first *result
	firstLabel := ""
	partitions(stream, allBelow, twoCuts, func(chunks [][]byte, label string) bool {
		for variant := 0; variant < 3; variant++ {
			if variant > 0 && len(chunks) > 6 {
				continue // error/zero-read variants on the coarser partitions
			}
			res := runImpl(chunks, max, variant == 1, map[int]int{0: 0, 1: 0, 2: 3}[variant])
			runs++
			lab := fmt.Sprintf("%s/v%d", label, variant)
			if strings.HasPrefix(res.class, "PANIC") {
				msg = fmt.Sprintf("reader panicked (%s) on %x split %s", res.class, stream, lab)
				return false
			}
			if res.maxCap > limit {
				msg = fmt.Sprintf("reader buffers %d bytes (limit 4*%d+32KiB) on %x split %s", res.maxCap, max, stream, lab)
				return false
			}
			if first == nil {
				r := res
				first, firstLabel = &r, lab
			} else if res.key() != first.key() {
				msg = fmt.Sprintf("result depends on the read split: max=%d stream=%x: split %s gives [%s], split %s gives [%s]", max, stream, firstLabel, first.key(), lab, res.key())
				return false
			}
		}
		return true
	})
	if msg != "" || first == nil {
		return msg, runs, ""
	}
	if strings.Join(first.pkts, ",") != strings.Join(refPkts, ",") {
		return fmt.Sprintf("packets differ from the reference reassembly: max=%d stream=%x: reader [%s], reference [%s]", max, stream, strings.Join(first.pkts, ","), strings.Join(refPkts, ",")), runs, ""
	}
	ok := false
	for _, c := range refClasses {
		if c == first.class {
			ok = true
		}
	}
	if !ok {
		return fmt.Sprintf("terminal condition differs from the reference: max=%d stream=%x: reader %q, reference %v", max, stream, first.class, refClasses), runs, ""
	}
	return "", runs, first.class
}

type replayIn struct {
	Hex      string
	Max      int
	AllBelow int
	TwoCuts  bool
}

func replay(in json.RawMessage) string {
	var v replayIn
	_ = json.Unmarshal(in, &v)
	msg, _, _ := checkStream(seq.Unhex(v.Hex), v.Max, v.AllBelow, v.TwoCuts)
	return msg
}

func seqFamily(name string, syms func(max int) []sym, minLen, maxLen int, maxes []int, allBelow int, twoCuts bool) seq.Family {
	return seq.Family{
		Name: name,
		Run: func(ctx *seq.Ctx) {
			for _, max := range maxes {
				al := syms(max)
				// enumerate index sequences, sharded by the first two symbols
				var shards [][]int
				for i := range al {
					for j := range al {
						shards = append(shards, []int{i, j})
					}
				}
				if minLen <= 1 {
					for i := range al {
						evalSeq(ctx, al, []int{i}, max, allBelow, twoCuts)
					}
					evalSeq(ctx, al, nil, max, allBelow, twoCuts)
				}
				seq.Parallel(len(shards), func(s int) {
					if ctx.Expired() || ctx.Failed() {
						return
					}
					idx := append([]int{}, shards[s]...)
					var rec func()
					rec = func() {
						if len(idx) >= minLen {
							evalSeq(ctx, al, idx, max, allBelow, twoCuts)
						}
						if len(idx) == maxLen || ctx.Failed() {
							return
						}
						for k := range al {
							idx = append(idx, k)
							rec()
							idx = idx[:len(idx)-1]
						}
					}
					rec()
				})
			}
			ctx.Sample(map[string]any{"frames": "A B D", "max": maxes[0], "stream_hex": seq.Hex(append(append(append([]byte{}, syms(maxes[0])[0].b...), syms(maxes[0])[1].b...), syms(maxes[0])[3].b...))})
		},
		Replay: replay,
	}
}

func evalSeq(ctx *seq.Ctx, al []sym, idx []int, max, allBelow int, twoCuts bool) {
	var stream []byte
	for _, i := range idx {
		stream = append(stream, al[i].b...)
	}
	msg, runs, class := checkStream(stream, max, allBelow, twoCuts)
	ctx.Count(1, runs, 1)
	if msg != "" {
		ctx.Fail(msg, replayIn{Hex: seq.Hex(stream), Max: max, AllBelow: allBelow, TwoCuts: twoCuts})
		return
	}
	ctx.Class(class)
}

// long single frames around the default-ish thresholds
func longFamily(maxes []int) seq.Family {
	return seq.Family{
		Name: "long-frames",
		Run: func(ctx *seq.Ctx) {
			for _, max := range maxes {
				for _, n := range []int{max - 1, max, max + 1, max + 40} {
					for _, split := range []int{0, 1, 2} { // one frame, two frames, three frames
						var stream []byte
						switch split {
						case 0:
							stream = fr(1, 1, 2, true, false, n)
						case 1:
							stream = append(fr(1, 1, 2, false, false, n/2), fr(1, 1, 2, true, false, n-n/2)...)
						default:
							stream = append(append(fr(1, 1, 2, false, false, n/3), fr(1, 1, 2, false, false, n/3)...), fr(1, 1, 2, true, false, n-2*(n/3))...)
						}
						stream = append(stream, fr(1, 2, 2, true, false, 1)...)
						msg, runs, class := checkStreamCoarse(stream, max)
						ctx.Count(1, runs, 1)
						if msg != "" {
							ctx.Fail(msg, replayIn{Hex: "", Max: max})
							return
						}
						ctx.Class(class)
					}
				}
			}
			ctx.Sample(map[string]any{"max": maxes[0], "payload": maxes[0] + 1, "frames": 2})
		},
	}
}

func checkStreamCoarse(stream []byte, max int) (string, int, string) {
	refPkts, refClasses := runRef(stream, max)
	var first *result
	runs := 0
	n := len(stream)
	for _, size := range []int{n, 1, 7, 4095, 4096, 4097, n / 2, n - 1, max, max + 27, max + 28, max + 29, max + 32} {
		if size <= 0 || (size == 1 && n > 20000) {
			continue
		}
		var chunks [][]byte
		for i := 0; i < n; i += size {
			chunks = append(chunks, stream[i:min(i+size, n)])
		}
		res := runImpl(chunks, max, false, 0)
		runs++
		if res.maxCap > 4*max+32*1024 {
			return fmt.Sprintf("reader buffers %d bytes for max=%d (limit 4*max+32KiB), chunk size %d", res.maxCap, max, size), runs, ""
		}
		if first == nil {
			r := res
			first = &r
		} else if shortKey(res) != shortKey(*first) {
			return fmt.Sprintf("result depends on the read split: max=%d stream of %d bytes: chunk size %d gives %s, whole gives %s", max, n, size, shortKey(res), shortKey(*first)), runs, ""
		}
	}
	if len(first.pkts) != len(refPkts) {
		return fmt.Sprintf("packet count differs from the reference: max=%d: reader %d, reference %d (%s vs %v)", max, len(first.pkts), len(refPkts), first.class, refClasses), runs, ""
	}
	ok := false
	for _, c := range refClasses {
		if c == first.class {
			ok = true
		}
	}
	if !ok {
		return fmt.Sprintf("terminal condition differs from the reference: max=%d: reader %q, reference %v", max, first.class, refClasses), runs, ""
	}
	return "", runs, first.class
}

func shortKey(r result) string { return fmt.Sprintf("%d packets -> %s", len(r.pkts), r.class) }

// an announced length above the maximum whose payload keeps arriving without ever completing:
// the result must not depend on the read split and the reader must stop buffering
func hostileFamily(maxes []int) seq.Family {
	return seq.Family{
		Name: "incomplete-oversized-frames",
		Run: func(ctx *seq.Ctx) {
			for _, max := range maxes {
				for _, declared := range []uint64{uint64(max) + 1, 1 << 20, 1 << 40} {
					for _, sent := range []int{0, max, max + 30, max + 31, max + 32, max + 33, 4*max + 100, 200 << 10} {
						if uint64(sent) >= declared {
							continue
						}
						for _, lead := range []bool{false, true} {
							var stream []byte
							if lead {
								stream = fr(1, 1, 2, true, false, 1)
							}
							stream = append(stream, 0x05, 0x01, 0x02) // kind 2 done, stream 1, message 2
							stream = refwire.PutUvarint(stream, declared)
							stream = append(stream, make([]byte, sent)...)
							msg, runs, class := checkStreamCoarse(stream, max)
							ctx.Count(1, runs, 1)
							if msg != "" {
								ctx.Fail(fmt.Sprintf("%s (declared %d bytes, %d sent, leading frame %v)", msg, declared, sent, lead), replayIn{Hex: seq.Hex(stream[:min(len(stream), 64)]), Max: max})
								return
							}
							ctx.Class(class)
						}
					}
				}
			}
			ctx.Sample(map[string]any{"max": maxes[0], "declared": "2^40", "payload_sent": 200 << 10})
		},
	}
}

// zero-length reads: 99 are tolerated, 100 in a row is io.ErrNoProgress
func zeroFamily() seq.Family {
	return seq.Family{
		Name: "zero-length-reads",
		Run: func(ctx *seq.Ctx) {
			stream := append(fr(1, 1, 2, true, false, 2), fr(1, 2, 2, true, false, 1)...)
			for _, z := range []int{0, 1, 50, 99, 100, 101} {
				res := runImpl([][]byte{stream[:3], stream[3:]}, 8, false, z)
				ctx.Count(1, 1, 1)
				want := "eof"
				wantPk := 2
				if z >= 100 {
					want, wantPk = "noprogress", 0
				}
				if res.class != want || len(res.pkts) != wantPk {
					ctx.Fail(fmt.Sprintf("%d zero-length reads before each chunk: got %d packets then %q, want %d then %q", z, len(res.pkts), res.class, wantPk, want), map[string]int{"zeros": z})
				}
				ctx.Class(res.class)
			}
			ctx.Sample(map[string]int{"zero_reads": 99})
		},
	}
}

func families(tier string) []seq.Family {
	if tier == "quick" {
		return []seq.Family{
			seqFamily("frame-sequences<=3/max4", alphabetA, 0, 3, []int{4}, 14, false),
			seqFamily("runs-of-6-small-frames/max4", func(int) []sym { return alphabetB() }, 6, 6, []int{4}, 0, false),
			longFamily([]int{4096 - 31, 4096, 70000}),
			hostileFamily([]int{4, 1000}),
			zeroFamily(),
		}
	}
	return []seq.Family{
		seqFamily("frame-sequences<=3/max1,4,8", alphabetA, 0, 3, []int{1, 4, 8}, 16, true),
		seqFamily("frame-sequences=4/max4", alphabetA, 4, 4, []int{4}, 12, false),
		seqFamily("runs-of-5..6-small-frames/max1,4,8", func(int) []sym { return alphabetB() }, 5, 6, []int{1, 4, 8}, 0, true),
		seqFamily("runs-of-7-small-frames/max4", func(int) []sym { return alphabetB() }, 7, 7, []int{4}, 0, true),
		longFamily([]int{4096 - 32, 4096 - 31, 4096 - 30, 4096, 70000, 4 << 20}),
		hostileFamily([]int{1, 4, 1000, 65536}),
		zeroFamily(),
	}
}

func init() {
	seq.Register(&seq.Check{ID: "C09", Families: families, Budget: map[string]int{"quick": 100, "thorough": 1500},
		Notes: "C09: frame sequences over a 16-frame alphabet (ids below/at/above the watermark, kind change, control bits, oversized, padded integers, malformed, truncated) and runs of 5-7 (quick: 6) small frames (stream longer than max+overhead while every packet fits); for each byte stream every composition into non-empty reads (short streams) or all single/double cuts and uniform chunk sizes, the final error delivered after or with the last data, zero-length reads interleaved; oracle: identical (packets, error class) for all splits, equal to the reference reassembly, reader buffer capacity (reflection) <= 4*max+32KiB."})
}
