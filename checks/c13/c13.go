// Package c13 (engine part): a real Manager, in client and in server role, is fed
// every short sequence of hostile packets; nothing may panic, hang or leak.
package c13

import (
	"context"
	"encoding/binary"
	"fmt"

	"storj.io/drpc"
	"storj.io/drpc/drpcconn"
	"storj.io/drpc/drpcserver"

	"verif/engine/sched"
	"verif/engine/vs"
	"verif/harness/enc"
	"verif/harness/fakenet"
	"verif/harness/refmeta"
	"verif/harness/refwire"
	"verif/harness/tr"
	"verif/harness/wl"
	"verif/mc"
)

type sym struct {
	kind uint8
	sid  uint64
	ctl  bool
	done bool
	alt  bool // alternative payload: an empty body (metadata packets)
}

func (s sym) String() string {
	if s.alt {
		return fmt.Sprintf("k%d/s%d/c%v/d%v/empty", s.kind, s.sid, s.ctl, s.done)
	}
	return fmt.Sprintf("k%d/s%d/c%v/d%v", s.kind, s.sid, s.ctl, s.done)
}

func alphabet(full bool) []sym {
	var out []sym
	kinds := []uint8{0, 1, 2, 3, 4, 5, 6, 7, 8}
	sids := []uint64{0, 1, 2}
	if !full {
		kinds = []uint8{1, 2, 3, 4, 5, 6, 7, 8}
		sids = []uint64{1, 2}
	}
	for _, k := range kinds {
		for _, s := range sids {
			for _, c := range []bool{false, true} {
				for _, d := range []bool{true, false} {
					if !full && c && !d {
						continue
					}
					out = append(out, sym{k, s, c, d, false})
				}
			}
		}
	}
	for _, s := range sids {
		out = append(out, sym{7, s, false, true, true})
	}
	return out
}

func payload(s sym) []byte {
	switch s.kind {
	case 1:
		return []byte("/probe/x")
	case 2:
		return []byte("msg")
	case 3:
		if s.ctl {
			return []byte{1, 2, 3} // shorter than the 8-byte code
		}
		b := make([]byte, 8, 9)
		binary.BigEndian.PutUint64(b, 1<<63)
		return append(b, 'e')
	case 7:
		if s.alt {
			return nil
		}
		if s.ctl {
			return []byte{0x0a, 0xff, 0xff, 0xff, 0xff, 0x0f, 0x0a} // hostile length
		}
		return refmeta.Encode(map[string]string{"k": "v"})
	}
	return nil
}

type state struct {
	fails []string
	trace []string
}

func scenario(role string, full bool, steps int) *mc.Scenario {
	name := fmt.Sprintf("hostile-packets[role=%s alphabet=%d steps=%d]", role, len(alphabet(full)), steps)
	al := alphabet(full)
	body := func() {
		st := &state{}
		sched.Cur().State()["st"] = st
		// choose the sequence and build the byte stream
		var stream []byte
		msgID := uint64(1)
		for i := 0; i < steps; i++ {
			k := sched.Choose(len(al)+1, "pkt")
			if k == len(al) {
				break // shorter sequence
			}
			s := al[k]
			st.trace = append(st.trace, s.String())
			stream = refwire.Append(stream, refwire.Frame{Data: payload(s), ID: refwire.ID{Stream: s.sid, Message: msgID}, Kind: s.kind, Done: s.done, Control: s.ctl})
			if s.done {
				msgID++
			}
		}
		c, s := tr.New("cli", "srv", tr.Options{Cap: -1})
		handler := drpc.Handler(handlerFunc(func(stream drpc.Stream, rpc string) error { return wl.Echo(stream, rpc) }))
		if role == "server" {
			srv := drpcserver.New(handler)
			serveDone := false
			s.InjectInit(stream)
			vs.Go("serveone", func() { _ = srv.ServeOne(context.Background(), s); serveDone = true })
			sched.Quiesce()
			c.EnvClose() // the hostile peer goes away
			sched.Quiesce()
			if !serveDone {
				st.fails = append(st.fails, "ServeOne did not return after the peer disconnected; blocked="+wl.BlockedSummary(sched.BlockedNow()))
			}
			if s.Closes != 1 {
				st.fails = append(st.fails, fmt.Sprintf("server transport closed %d times", s.Closes))
			}
		} else {
			conn := drpcconn.New(c)
			c.InjectInit(stream)
			callDone := false
			vs.Go("client", func() {
				in, out := []byte("req"), []byte(nil)
				_ = conn.Invoke(context.Background(), "/probe/x", enc.Bytes{}, &in, &out)
				callDone = true
			})
			sched.Quiesce()
			s.EnvClose()
			sched.Quiesce()
			if !callDone {
				st.fails = append(st.fails, "the client call did not return after the peer disconnected; blocked="+wl.BlockedSummary(sched.BlockedNow()))
			}
			_ = conn.Close()
			sched.Quiesce()
			if !callDone {
				st.fails = append(st.fails, "the client call did not return even after the connection was closed locally; blocked="+wl.BlockedSummary(sched.BlockedNow()))
			}
			if c.Closes != 1 {
				st.fails = append(st.fails, fmt.Sprintf("client transport closed %d times", c.Closes))
			}
		}
		if lib := wl.LibBlocked(sched.BlockedNow()); len(lib) > 0 {
			st.fails = append(st.fails, "library goroutines left behind: "+wl.BlockedSummary(lib))
		}
		sched.Observef("%d bytes", len(stream))
	}
	check := func(e *sched.Exec) string {
		st, _ := e.State()["st"].(*state)
		if len(e.Panics) > 0 {
			tr := ""
			if st != nil {
				tr = fmt.Sprint(st.trace)
			}
			return "panic on packets " + tr + ": " + e.Panics[0]
		}
		if st != nil && len(st.fails) > 0 {
			return fmt.Sprintf("packets %v: %s", st.trace, st.fails[0])
		}
		return ""
	}
	return &mc.Scenario{Name: name, Body: body, Check: check, Model: sched.DataFree, NoCache: true}
}

type handlerFunc func(stream drpc.Stream, rpc string) error

func (f handlerFunc) HandleRPC(stream drpc.Stream, rpc string) error { return f(stream, rpc) }

// statsScenario: one Server with statistics collection serves several connections at once; every
// peer invokes rpc names of its own choosing (the server keeps per-name state keyed by what peers
// send). Nothing may panic or hang; the free-running race pass looks at the shared state.
func statsScenario(nconn int) *mc.Scenario {
	name := fmt.Sprintf("peer-chosen-rpc-names[%d connections on one Server with CollectStats]", nconn)
	body := func() {
		st := &state{}
		sched.Cur().State()["st"] = st
		lis := &fakenet.Listener{}
		srv := drpcserver.NewWithOptions(handlerFunc(func(stream drpc.Stream, rpc string) error { return wl.Echo(stream, rpc) }), drpcserver.Options{CollectStats: true})
		ctx, cancel := context.WithCancel(context.Background())
		var ends []*tr.End
		for i := 0; i < nconn; i++ {
			c, s := tr.New(fmt.Sprintf("cli%d", i), fmt.Sprintf("srv%d", i), tr.Options{Cap: -1})
			var wire []byte
			for k := 0; k < 2; k++ {
				sid := uint64(k + 1)
				rpc := fmt.Sprintf("/peer%d/rpc%d", i, k)
				wire = refwire.Append(wire, refwire.Frame{Data: []byte(rpc), ID: refwire.ID{Stream: sid, Message: 1}, Kind: 1, Done: true})
				wire = refwire.Append(wire, refwire.Frame{Data: []byte("m"), ID: refwire.ID{Stream: sid, Message: 2}, Kind: 2, Done: true})
				wire = refwire.Append(wire, refwire.Frame{ID: refwire.ID{Stream: sid, Message: 3}, Kind: 5, Done: true})
			}
			s.InjectInit(wire)
			lis.Push(fakenet.Conn{End: s})
			ends = append(ends, c)
		}
		served := false
		vs.Go("serve", func() { _ = srv.Serve(ctx, lis); served = true })
		vs.Go("stats-reader", func() { _ = srv.Stats() })
		sched.Quiesce()
		_ = srv.Stats()
		wl.Cancel(cancel)
		for _, c := range ends {
			c.EnvClose()
		}
		sched.Quiesce()
		if !served {
			st.fails = append(st.fails, "Serve did not return after its context was cancelled and the peers disconnected; blocked="+wl.BlockedSummary(sched.BlockedNow()))
		}
		if lib := wl.LibBlocked(sched.BlockedNow()); len(lib) > 0 {
			st.fails = append(st.fails, "library goroutines left behind: "+wl.BlockedSummary(lib))
		}
		sched.Observef("served=%v", served)
	}
	check := func(e *sched.Exec) string {
		st, _ := e.State()["st"].(*state)
		if len(e.Panics) > 0 {
			return "panic: " + e.Panics[0]
		}
		if st != nil && len(st.fails) > 0 {
			return st.fails[0]
		}
		return ""
	}
	return &mc.Scenario{Name: name, Body: body, Check: check, Model: sched.Deviation, NoCache: true}
}

func plans(tier string) []mc.Plan {
	var ps []mc.Plan
	for _, role := range []string{"server", "client"} {
		if tier == "quick" {
			ps = append(ps, mc.Plan{Scen: scenario(role, true, 2), Bounds: []int{0}, Split: true})
			ps = append(ps, mc.Plan{Scen: scenario(role, false, 3), Bounds: []int{0}, Split: true})
		} else {
			ps = append(ps, mc.Plan{Scen: scenario(role, true, 3), Bounds: []int{0}, Split: true})
			ps = append(ps, mc.Plan{Scen: scenario(role, false, 4), Bounds: []int{0}, Split: true})
			ps = append(ps, mc.Plan{Scen: scenario(role, false, 2), Bounds: []int{1}, Split: true})
		}
	}
	ps = append(ps, mc.Plan{Scen: statsScenario(2), Bounds: []int{0, 1}}, mc.Plan{Scen: statsScenario(3), Bounds: []int{0}})
	return ps
}

func init() {
	mc.Register(&mc.Check{ID: "C13", Plans: plans, Budget: map[string]int{"quick": 120, "thorough": 1500},
		Notes: "C13 (engine part): a real drpcmanager (inside drpcserver.ServeOne with an echo handler, and inside drpcconn with a call in flight) receives every sequence of up to 2 (3) packets over kind 0..8 x stream id {0,1,2} x control x done plus empty-body metadata packets (111 symbols) and up to 3 (4) over a reduced 50-symbol alphabet, then the peer disconnects; oracle: no panic, every call and ServeOne return, transport closed once, no library goroutine left."})
}
