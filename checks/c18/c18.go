// Package c18 (engine part): an unknown-kind packet with the control bit, inserted at every
// position of two consecutive unary RPCs written by a raw client, must not disturb them. The raw
// client and the real server run under the controlled scheduler, so a lost answer is a decided
// fact of an explored schedule and not a timeout.
package c18

import (
	"context"
	"fmt"

	"storj.io/drpc"
	"storj.io/drpc/drpcserver"

	"verif/engine/sched"
	"verif/engine/vs"
	"verif/harness/enc"
	"verif/harness/refmeta"
	"verif/harness/refwire"
	"verif/harness/tr"
	"verif/harness/wl"
	"verif/mc"
)

type pk struct {
	kind uint8
	sid  uint64
	data []byte
	ctl  bool
}

type echo struct{ st *state }

func (h echo) HandleRPC(stream drpc.Stream, rpc string) error {
	var in []byte
	if err := stream.MsgRecv(&in, enc.Bytes{}); err != nil {
		return err
	}
	h.st.handled++
	out := append([]byte("re:"), in...)
	return stream.MsgSend(&out, enc.Bytes{})
}

type state struct {
	fails   []string
	handled int
}

// packets returns the packets of two unary RPCs with one control packet inserted at pos
// (nil when pos is beyond the end).
func packets(withMeta bool, pos int, kind uint8, attachPrev bool) []pk {
	var seqn []pk
	for rpc := uint64(1); rpc <= 2; rpc++ {
		if withMeta {
			seqn = append(seqn, pk{7, rpc, refmeta.Encode(map[string]string{"k": "v"}), false})
		}
		seqn = append(seqn, pk{1, rpc, []byte("/echo"), false}, pk{2, rpc, []byte{byte('a' + rpc)}, false}, pk{6, rpc, nil, false})
	}
	if pos > len(seqn) {
		return nil
	}
	sid := uint64(2)
	if pos < len(seqn) {
		sid = seqn[pos].sid
	}
	if attachPrev && pos > 0 {
		sid = seqn[pos-1].sid // attach it to the stream that is ending rather than the one that starts
	}
	return append(append(append([]pk{}, seqn[:pos]...), pk{kind, sid, []byte("future-extension"), true}), seqn[pos:]...)
}

func scenario(withMeta bool, pos int, kind uint8, attachPrev bool) *mc.Scenario {
	name := fmt.Sprintf("control-packet-inside-rpc[metadata=%v position=%d kind=%d attached-to-previous=%v]", withMeta, pos, kind, attachPrev)
	ins := packets(withMeta, pos, kind, attachPrev)
	body := func() {
		st := &state{}
		sched.Cur().State()["st"] = st
		c, s := tr.New("cli", "srv", tr.Options{Cap: -1})
		ctx, cancel := context.WithCancel(context.Background())
		vs.Go("serveone", func() { _ = drpcserver.New(echo{st}).ServeOne(ctx, s) })
		answers := map[uint64]string{}
		var inbuf []byte
		readAnswer := func(sid uint64) bool {
			// read until the answer of stream sid has arrived (or the connection ends)
			buf := make([]byte, 256)
			for answers[sid] == "" {
				n, err := c.Read(buf)
				inbuf = append(inbuf, buf[:n]...)
				for {
					fr, rem, res := refwire.Parse(inbuf)
					if res != refwire.OK {
						break
					}
					inbuf = rem
					switch fr.Kind {
					case 2:
						answers[fr.ID.Stream] += string(fr.Data)
					case 3:
						st.fails = append(st.fails, fmt.Sprintf("the server answered stream %d with an error: %q", fr.ID.Stream, fr.Data[min(8, len(fr.Data)):]))
						return false
					}
				}
				if err != nil {
					return false
				}
			}
			return true
		}
		clientDone := false
		vs.Go("rawclient", func() {
			mid := map[uint64]uint64{}
			waited := false
			for _, p := range ins {
				if p.sid == 2 && !waited {
					// like every client, wait for the first call's answer before sending anything
					// that belongs to the second one
					waited = true
					if !readAnswer(1) {
						return
					}
				}
				mid[p.sid]++
				b := refwire.Append(nil, refwire.Frame{Data: p.data, ID: refwire.ID{Stream: p.sid, Message: mid[p.sid]}, Kind: p.kind, Done: true, Control: p.ctl})
				if _, err := c.Write(b); err != nil {
					return
				}
			}
			readAnswer(2)
			clientDone = true
		})
		sched.Quiesce()
		switch {
		case len(st.fails) > 0:
		case s.IsClosed() || s.Dead():
			st.fails = append(st.fails, fmt.Sprintf("the server closed the connection (answers %q)", answers))
		case !clientDone || answers[1] != "re:b" || answers[2] != "re:c":
			st.fails = append(st.fails, fmt.Sprintf("the two RPCs were answered with %q, want \"re:b\" and \"re:c\" (handler ran %d times); blocked=%s", answers, st.handled, wl.BlockedSummary(sched.BlockedNow())))
		}
		sched.Observef("answers=%d handled=%d", len(answers), st.handled)
		sched.Freeze()
		wl.Cancel(cancel)
		c.EnvClose()
		sched.Quiesce()
	}
	check := func(e *sched.Exec) string {
		if len(e.Panics) > 0 {
			return "panic: " + e.Panics[0]
		}
		st, _ := e.State()["st"].(*state)
		if st != nil && len(st.fails) > 0 {
			return st.fails[0]
		}
		return ""
	}
	return &mc.Scenario{Name: name, Body: body, Check: check, Model: sched.Deviation, NoCache: true}
}

func plans(tier string) []mc.Plan {
	var ps []mc.Plan
	for _, meta := range []bool{false, true} {
		for pos := 0; pos <= 8; pos++ {
			for _, kind := range []uint8{0, 8, 63} {
				for _, a := range []bool{false, true} {
					if packets(meta, pos, kind, a) == nil {
						continue
					}
					bounds := []int{0, 1}
					if tier == "thorough" {
						bounds = []int{0, 1, 2}
					}
					ps = append(ps, mc.Plan{Scen: scenario(meta, pos, kind, a), Bounds: bounds, Split: len(bounds) > 2})
				}
			}
		}
	}
	return mc.WithReversed(ps, 1)
}

func init() {
	mc.Register(&mc.Check{ID: "C18", Plans: plans, Budget: map[string]int{"quick": 60, "thorough": 900},
		Notes: "C18 (engine part): a raw client writes the packets of two consecutive unary RPCs (with and without metadata) to a real drpcserver.ServeOne over the model pipe, with one unknown-kind control packet (kinds 0, 8, 63) inserted at every position and attached to the starting or the ending stream; every schedule within the deviation bound; both RPCs must be answered with their own echo, the handler must run twice, the connection must stay open."})
}
