// Package c11 (engine part): metadata attached to a call is seen by exactly that
// call's handler, also when an earlier call was abandoned between its metadata
// and its invoke.
package c11

import (
	"context"
	"fmt"
	"sort"
	"strings"

	"storj.io/drpc"
	"storj.io/drpc/drpcmetadata"

	"verif/engine/sched"
	"verif/engine/vs"
	"verif/harness/enc"
	"verif/harness/tr"
	"verif/harness/wl"
	"verif/mc"
)

var maps = map[string]map[string]string{
	"none": nil,
	"m1":   {"k": "v1"},
	"m2":   {"k": "v2", "a": ""},
	"m3":   {"": "empty-key", "bin\x00\xff": "x\ny"},
}

func render(m map[string]string, ok bool) string {
	if !ok {
		return "<none>"
	}
	var ks []string
	for k := range m {
		ks = append(ks, k)
	}
	sort.Strings(ks)
	var b strings.Builder
	for _, k := range ks {
		fmt.Fprintf(&b, "%q=%q;", k, m[k])
	}
	return "{" + b.String() + "}"
}

type call struct {
	meta   string // key of maps
	kind   string // "U" | "S"
	cancel bool   // a canceller thread cancels this call's context at an arbitrary point
}

func (c call) String() string {
	s := c.kind + ":" + c.meta
	if c.cancel {
		s += ":cancel"
	}
	return s
}

func scenario(cfg wl.Config, calls []call) *mc.Scenario {
	var names []string
	for _, c := range calls {
		names = append(names, c.String())
	}
	name := fmt.Sprintf("metadata[%s | %s]", cfg, strings.Join(names, " ; "))
	body := func() {
		seen := map[string]string{}
		handler := func(env *wl.Env, stream drpc.Stream, rpc string) error {
			m, ok := drpcmetadata.Get(stream.Context())
			if prev, dup := seen[rpc]; dup {
				env.Failf("handler for %s entered twice (%s)", rpc, prev)
			}
			seen[rpc] = render(m, ok)
			return wl.Echo(stream, rpc)
		}
		env := wl.NewEnv(cfg, handler)
		env.Facts["seen"] = seen
		done := false
		vs.Go("client", func() {
			for i, c := range calls {
				ctx, cancel := context.WithCancel(context.Background())
				if m := maps[c.meta]; m != nil {
					ctx = drpcmetadata.AddPairs(ctx, m)
				}
				if c.cancel {
					vs.Go(fmt.Sprintf("canceller%d", i), func() { wl.Cancel(cancel) })
				}
				rpc := fmt.Sprintf("/c%d", i)
				req := enc.Payload(byte('A'+i), 0, 0, enc.MinPayload)
				if c.kind == "U" {
					var out []byte
					err := env.Conn.Invoke(ctx, rpc, enc.Bytes{}, &req, &out)
					if err == nil && string(out) != rpc+":"+string(req) {
						env.Failf("call %d got a foreign reply", i)
					}
					if err != nil && !c.cancel && !env.ConnClosed() {
						pend, _ := env.Facts["pending"].([]string)
						env.Facts["pending"] = append(pend, fmt.Sprintf("call %d failed with %v and the connection never reported closed", i, err))
					}
				} else {
					s, err := env.Conn.NewStream(ctx, rpc, enc.Bytes{})
					if err == nil {
						_ = s.MsgSend(&req, enc.Bytes{})
						var in []byte
						_ = s.MsgRecv(&in, enc.Bytes{})
						_ = s.Close()
					}
				}
				if !c.cancel {
					cancel()
				}
			}
			done = true
		})
		sched.Quiesce()
		if !done {
			env.Failf("call sequence never finished; blocked=%s", wl.BlockedSummary(sched.BlockedNow()))
		}
		if pend, _ := env.Facts["pending"].([]string); len(pend) > 0 && !env.ConnClosed() {
			env.Failf("%s", pend[0])
		}
		var obs []string
		for k, v := range seen {
			obs = append(obs, k+"="+v)
		}
		sort.Strings(obs)
		sched.Observe(strings.Join(obs, " "))
		env.Teardown()
	}
	check := func(e *sched.Exec) string {
		if m := wl.Basic(e); m != "" {
			return m
		}
		seen := wl.GetEnv(e).Facts["seen"].(map[string]string)
		for i, c := range calls {
			rpc := fmt.Sprintf("/c%d", i)
			got, entered := seen[rpc]
			if !entered {
				if !c.cancel && !anyCancelBefore(calls, i) {
					return fmt.Sprintf("handler of call %d was never entered", i)
				}
				continue
			}
			want := render(maps[c.meta], maps[c.meta] != nil)
			if got != want {
				return fmt.Sprintf("handler of call %d (%s) saw metadata %s, the caller attached %s", i, c, got, want)
			}
		}
		return ""
	}
	return &mc.Scenario{Name: name, Body: body, Check: check, Model: sched.Deviation, NoCache: true}
}

// concurrentScenario: n goroutines call Invoke on one connection at the same time, each with its
// own metadata (same encoded length, so that any shared scratch buffer would be reused).
func concurrentScenario(cfg wl.Config, n int) *mc.Scenario {
	name := fmt.Sprintf("metadata-concurrent[%s | callers=%d]", cfg, n)
	body := func() {
		seen := map[string]string{}
		handler := func(env *wl.Env, stream drpc.Stream, rpc string) error {
			m, ok := drpcmetadata.Get(stream.Context())
			seen[rpc] = render(m, ok)
			return wl.Echo(stream, rpc)
		}
		env := wl.NewEnv(cfg, handler)
		env.Facts["seen"] = seen
		finished := 0
		for i := 0; i < n; i++ {
			i := i
			vs.Go(fmt.Sprintf("caller%d", i), func() {
				ctx := drpcmetadata.AddPairs(context.Background(), map[string]string{"caller": fmt.Sprintf("id-%d", i)})
				if i == n-1 {
					ctx = context.Background() // the last caller attaches nothing
				}
				req, out := enc.Payload(byte('A'+i), 0, 0, enc.MinPayload), []byte(nil)
				rpc := fmt.Sprintf("/c%d", i)
				if err := env.Conn.Invoke(ctx, rpc, enc.Bytes{}, &req, &out); err != nil {
					env.Failf("concurrent call %d failed: %v", i, err)
				} else if string(out) != rpc+":"+string(req) {
					env.Failf("concurrent call %d got a foreign reply", i)
				}
				finished++
			})
		}
		sched.Quiesce()
		if finished != n {
			env.Failf("concurrent calls never finished; blocked=%s", wl.BlockedSummary(sched.BlockedNow()))
		}
		for i := 0; i < n; i++ {
			want := fmt.Sprintf("{%q=%q;}", "caller", fmt.Sprintf("id-%d", i))
			if i == n-1 {
				want = "<none>"
			}
			if got := seen[fmt.Sprintf("/c%d", i)]; got != want {
				env.Failf("handler of concurrent call %d saw metadata %s, its caller attached %s", i, got, want)
			}
		}
		sched.Observef("finished=%d", finished)
		env.Teardown()
	}
	return &mc.Scenario{Name: name, Body: body, Check: wl.Basic, Model: sched.Deviation, NoCache: true}
}

// a hard-cancelled earlier call may legitimately close the connection
func anyCancelBefore(calls []call, i int) bool {
	for _, c := range calls[:i] {
		if c.cancel {
			return true
		}
	}
	return false
}

func basePlans(tier string) []mc.Plan {
	var ps []mc.Plan
	metas := []string{"none", "m1", "m2"}
	if tier == "thorough" {
		metas = append(metas, "m3")
	}
	soft := wl.Config{Soft: true, Pipe: tr.Options{Cap: -1}}
	hard := wl.Config{Soft: false, Pipe: tr.Options{Cap: -1}}
	// all sequences of three calls with/without metadata, no cancellation
	for _, a := range metas {
		for _, b := range metas {
			for _, c := range metas {
				bounds := []int{0}
				if tier == "thorough" || (a != b && b != c && a != c) {
					bounds = []int{0, 1}
				}
				ps = append(ps, mc.Plan{Scen: scenario(soft, []call{{a, "U", false}, {b, "U", false}, {c, "U", false}}), Bounds: bounds})
			}
		}
	}
	// first call abandoned at every point (between its metadata and its invoke among them)
	for _, cfg := range []wl.Config{soft, hard} {
		for _, kind := range []string{"U", "S"} {
			for _, a := range []string{"m1", "m2"} {
				for _, b := range metas {
					bounds := []int{0, 1}
					if cfg.Soft && tier == "thorough" && (b == "none" || b == "m1") && a == "m1" {
						// (each bound-2 scenario is ~2.6 M executions: the four combinations in which the
						// second call carries nothing or the same key as the abandoned one)
						bounds = []int{0, 1, 2}
					}
					ps = append(ps, mc.Plan{Scen: scenario(cfg, []call{{a, kind, true}, {b, "U", false}, {"m1", "U", false}}), Bounds: bounds, Split: len(bounds) > 2})
				}
			}
		}
	}
	for _, n := range []int{3, 4} {
		bounds := []int{0, 1}
		if tier == "thorough" && n == 3 {
			bounds = []int{0, 1, 2}
		}
		ps = append(ps, mc.Plan{Scen: concurrentScenario(soft, n), Bounds: bounds, Split: len(bounds) > 2})
	}
	if tier == "thorough" {
		tiny := wl.Config{Soft: true, Pipe: tr.Options{Cap: -1, ReadMax: 1}, SplitSize: 3, WriterBuf: 1}
		for _, a := range []string{"m1", "m3"} {
			for _, b := range metas {
				ps = append(ps, mc.Plan{Scen: scenario(tiny, []call{{a, "U", true}, {b, "U", false}, {"m2", "S", false}}), Bounds: []int{0, 1}})
			}
		}
	}
	return ps
}

// plans adds, to every scenario, a twin explored relative to the reversed default schedule (a
// second reference schedule for the deviation bound).
func plans(tier string) []mc.Plan {
	ps := basePlans(tier)
	if tier == "thorough" {
		return mc.WithReversed(ps, 1)
	}
	return mc.WithReversed(ps, 1)
}

func init() {
	mc.Register(&mc.Check{ID: "C11", Plans: plans, Budget: map[string]int{"quick": 200, "thorough": 1500},
		Notes: "C11 (engine part): sequences of three calls with/without metadata on one connection; the first call optionally abandoned by a canceller thread placed at every point (deviation bound 1-2), e.g. between its metadata packet and its invoke; oracle: handler r sees exactly the map attached to call r."})
}
