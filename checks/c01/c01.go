// Package c01: per-stream delivery is in order, exactly once, uncorrupted and
// complete, in both directions, under all schedules up to the bound.
package c01

import (
	"bytes"
	"context"
	"fmt"
	"io"
	"strings"

	"storj.io/drpc"
	"storj.io/drpc/drpcconn"
	"storj.io/drpc/drpcserver"

	"verif/engine/sched"
	"verif/engine/vs"
	"verif/harness/enc"
	"verif/harness/fakenet"
	"verif/harness/refwire"
	"verif/harness/tr"
	"verif/harness/wl"
	"verif/mc"
)

// msg builds the payload of message number seq with the given size (size 0 = empty).
func msg(seq byte, size int) []byte {
	b := make([]byte, size)
	for i := range b {
		b[i] = seq*31 + byte(i)*7 + 1
	}
	if size > 0 {
		b[0] = seq
	}
	return b
}

type sendRec struct {
	data []byte
	ok   bool
	done bool // the call returned
}

type state struct {
	sends     [][]*sendRec // per sender goroutine, program order
	recvs     [][][]byte   // per receiver goroutine
	recvErr   []error      // terminal error per receiver
	closeOK   bool         // half-close returned nil
	disturbed bool         // a closer/canceller ran
	raw       bool         // receivers use RawRecv
}

type spec struct {
	dir       string  // "c2s" | "s2c"
	senders   [][]int // message sizes per sender goroutine
	receivers int
	toggle    bool   // the sender corks its first message with SetManualFlush(true) and un-corks before the next
	halfClose bool   // sender side half-closes after its sends
	disturb   string // "", "close", "cancel": concurrent closer/canceller on the sending endpoint's peer... see body
	raw       bool   // receivers use RawRecv (the caller owns the returned bytes)
}

func (s spec) String() string {
	t := ""
	if s.toggle {
		t = " toggle-manual-flush"
	}
	if s.raw {
		t += " raw-receive"
	}
	return fmt.Sprintf("%s senders=%v recv=%d hc=%v disturb=%q%s", s.dir, s.senders, s.receivers, s.halfClose, s.disturb, t)
}

type flusher interface{ RawFlush() error }

type manualFlusher interface{ SetManualFlush(bool) }

func sendAll(env *wl.Env, st *state, stream drpc.Stream, g int, base byte, sizes []int, wire *tr.End, sid *uint64) {
	toggle, _ := env.Facts["toggle"].(bool)
	for i, n := range sizes {
		r := &sendRec{data: msg(base+byte(i), n)}
		st.sends[g] = append(st.sends[g], r)
		out := append([]byte(nil), r.data...)
		corked := false
		if mf, ok := stream.(manualFlusher); ok && toggle {
			// the documented batching idiom: cork the first message, un-cork before the second
			corked = i == 0 && len(sizes) > 1
			mf.SetManualFlush(corked)
		}
		err := stream.MsgSend(&out, enc.Bytes{})
		r.ok, r.done = err == nil, true
		if err == nil && !env.Cfg.ManualFlush && !corked {
			// flush-at-return: every frame of the message has been handed to Transport.Write
			if !onWire(wire.Log, r.data) {
				env.Failf("MsgSend returned nil (automatic flushing) but the message (seq %d, %d bytes) has not been completely passed to the transport", r.data0(), len(r.data))
			}
		}
		if err != nil {
			return
		}
	}
	if env.Cfg.ManualFlush {
		if f, ok := stream.(flusher); ok {
			_ = f.RawFlush()
		}
	}
}

func (r *sendRec) data0() int {
	if len(r.data) == 0 {
		return -1
	}
	return int(r.data[0])
}

// onWire reports whether a complete message packet with this payload is in the write log.
func onWire(log [][]byte, want []byte) bool {
	var all []byte
	for _, b := range log {
		all = append(all, b...)
	}
	frames, _, _ := refwire.ParseAll(all)
	ra := refwire.NewReassembler(1 << 30)
	for _, f := range frames {
		p, done, e := ra.Feed(f)
		if e != refwire.ErrNone {
			return false
		}
		if done && p.Kind == 2 && bytes.Equal(p.Data, want) {
			return true
		}
	}
	return false
}

func recvAll(st *state, stream drpc.Stream, g int) {
	rr, raw := stream.(interface{ RawRecv() ([]byte, error) })
	for k := 0; k < 16; k++ {
		var in []byte
		if st.raw && raw {
			b, err := rr.RawRecv()
			if err != nil {
				st.recvErr[g] = err
				return
			}
			in = b
		} else if err := stream.MsgRecv(&in, enc.Bytes{}); err != nil {
			st.recvErr[g] = err
			return
		}
		st.recvs[g] = append(st.recvs[g], in)
	}
}

func scenario(cfg wl.Config, sp spec) *mc.Scenario {
	name := fmt.Sprintf("deliver[%s | %s]", cfg, sp)
	body := func() {
		st := &state{sends: make([][]*sendRec, len(sp.senders)), recvs: make([][][]byte, sp.receivers), recvErr: make([]error, sp.receivers), raw: sp.raw}
		var env *wl.Env
		runSenders := func(stream drpc.Stream, wire *tr.End) {
			if len(sp.senders) == 1 {
				sendAll(env, st, stream, 0, 1, sp.senders[0], wire, nil)
				return
			}
			var wg vs.WaitGroup
			for g := range sp.senders {
				g := g
				wg.Add(1)
				vs.Go(fmt.Sprintf("sender%d", g), func() {
					sendAll(env, st, stream, g, byte(1+g*8), sp.senders[g], wire, nil)
					wg.Done()
				})
			}
			wg.Wait()
		}
		runReceivers := func(stream drpc.Stream) {
			if sp.receivers == 1 {
				recvAll(st, stream, 0)
				return
			}
			var wg vs.WaitGroup
			for g := 0; g < sp.receivers; g++ {
				g := g
				wg.Add(1)
				vs.Go(fmt.Sprintf("receiver%d", g), func() { recvAll(st, stream, g); wg.Done() })
			}
			wg.Wait()
		}
		handler := func(e *wl.Env, stream drpc.Stream, rpc string) error {
			if sp.dir == "c2s" {
				runReceivers(stream)
				return nil
			}
			runSenders(stream, e.Srv)
			// returning nil makes the server half-close
			st.closeOK = true
			if !sp.halfClose {
				// keep the stream open: wait for the client to end the RPC
				var in []byte
				_ = stream.MsgRecv(&in, enc.Bytes{})
			}
			return nil
		}
		env = wl.NewEnv(cfg, handler)
		env.Facts["st"] = st
		env.Facts["toggle"] = sp.toggle
		vs.Go("client", func() {
			ctx, cancel := context.WithCancel(context.Background())
			stream, err := env.Conn.NewStream(ctx, "/c01", enc.Bytes{})
			if err != nil {
				env.Failf("NewStream failed: %v", err)
				return
			}
			switch sp.disturb {
			case "close":
				vs.Go("closer", func() { st.disturbed = true; _ = stream.Close() })
			case "cancel":
				vs.Go("canceller", func() { st.disturbed = true; wl.Cancel(cancel) })
			}
			if sp.dir == "c2s" {
				runSenders(stream, env.Cli)
				if sp.halfClose {
					st.closeOK = stream.CloseSend() == nil
					if sp.disturb == "hangup" {
						// the sender hangs up right after its graceful half-close: everything it sent
						// successfully is in the transport and must still reach the (slow) receiver
						_ = env.Conn.Close()
						return
					}
					// wait for the handler to finish (it returns after it saw end-of-stream)
					var in []byte
					_ = stream.MsgRecv(&in, enc.Bytes{})
				}
				return
			}
			runReceivers(stream) // the first action on the stream is a receive: the invoke must get flushed by it
		})
		sched.Quiesce()
		env.Facts["blocked"] = wl.AppBlocked(sched.BlockedNow())
		env.Facts["final"] = snapshot(st)
		sched.Observe(env.Facts["final"].(string))
		env.Teardown()
	}
	check := func(e *sched.Exec) string {
		if m := wl.Basic(e); m != "" {
			return m
		}
		env := wl.GetEnv(e)
		return verify(env, sp)
	}
	// raw receives own their bytes after the call: let other goroutines run right after every lock
	// release, where a use of the connection's buffer after handing it back would happen
	return &mc.Scenario{Name: name, Body: body, Check: check, Model: sched.Deviation, NoCache: true, AfterRelease: sp.raw}
}

func snapshot(st *state) string {
	var b strings.Builder
	for g, ss := range st.sends {
		fmt.Fprintf(&b, "S%d:", g)
		for _, s := range ss {
			fmt.Fprintf(&b, "%d/%v ", s.data0(), s.ok)
		}
	}
	for g, rs := range st.recvs {
		fmt.Fprintf(&b, "R%d:", g)
		for _, r := range rs {
			if len(r) == 0 {
				b.WriteString("e ")
			} else {
				fmt.Fprintf(&b, "%d ", r[0])
			}
		}
		fmt.Fprintf(&b, "err=%v ", st.recvErr[g] != nil)
	}
	fmt.Fprintf(&b, "hc=%v", st.closeOK)
	return b.String()
}

// verify evaluates the C01 oracle on the state frozen at quiescence. Because the
// Check runs after teardown, it only uses the snapshot taken before it plus the
// immutable send/recv logs (receivers log nothing after quiescence except errors).
func verify(env *wl.Env, sp spec) string {
	st := env.Facts["st"].(*state)
	// (1) every received message is one that was submitted, per sender in order,
	// no duplicates, and no gap over a successful send
	var all [][]byte
	for _, rs := range st.recvs {
		all = append(all, rs...)
	}
	for ri, rs := range st.recvs {
		next := make([]int, len(st.sends))
		for _, r := range rs {
			found := false
			for g, ss := range st.sends {
				for i := next[g]; i < len(ss); i++ {
					if bytes.Equal(ss[i].data, r) {
						// with one receiver, everything skipped must be a failed send
						if sp.receivers == 1 {
							for j := next[g]; j < i; j++ {
								if ss[j].ok {
									return fmt.Sprintf("gap: receiver got message %d of sender %d but not the earlier successful message %d", ss[i].data0(), g, ss[j].data0())
								}
							}
						}
						next[g] = i + 1
						found = true
						break
					}
				}
				if found {
					break
				}
			}
			if !found {
				return fmt.Sprintf("receiver %d obtained a message that is not the next submitted one (altered, truncated, merged, duplicated or reordered): % x ; state: %s", ri, r, env.Facts["final"])
			}
		}
	}
	// exactly-once across receivers
	for i := range all {
		for j := i + 1; j < len(all); j++ {
			if len(all[i]) > 0 && bytes.Equal(all[i], all[j]) {
				return fmt.Sprintf("message %d delivered twice", all[i][0])
			}
		}
	}
	if st.disturbed {
		// with a concurrent closer/canceller only safety (1) is required, plus nobody hangs
		if bl, _ := env.Facts["blocked"].([]sched.BlockedG); len(bl) > 0 {
			return "goroutines blocked after close/cancel: " + wl.BlockedSummary(bl)
		}
		return ""
	}
	// (2)/(3) completeness: every successful send has been received at quiescence
	nOK, allOK, allDone := 0, true, true
	for _, ss := range st.sends {
		for _, s := range ss {
			if !s.done {
				allDone = false
			}
			if s.ok {
				nOK++
			} else {
				allOK = false
			}
		}
	}
	for g, want := range sp.senders {
		if len(st.sends[g]) != len(want) {
			allDone = false
		}
	}
	if !allDone || !allOK {
		return fmt.Sprintf("a send failed or never returned although nobody closed or cancelled: %s", env.Facts["final"])
	}
	if len(all) != nOK {
		return fmt.Sprintf("incomplete: %d sends succeeded but %d messages were received at quiescence: %s", nOK, len(all), env.Facts["final"])
	}
	if sp.halfClose {
		if !st.closeOK {
			return "half-close failed although nobody closed or cancelled"
		}
		for g, err := range st.recvErr {
			if err != io.EOF {
				return fmt.Sprintf("receiver %d: after a graceful half-close the receive must report end-of-stream, got %v", g, err)
			}
		}
		if bl, _ := env.Facts["blocked"].([]sched.BlockedG); len(bl) > 0 {
			return "goroutines blocked after a graceful half-close: " + wl.BlockedSummary(bl)
		}
	} else {
		// receivers legitimately wait for more; nobody else may be blocked
		bl, _ := env.Facts["blocked"].([]sched.BlockedG)
		for _, b := range bl {
			okWait := strings.HasPrefix(b.Name, "receiver") || (sp.dir == "c2s" && b.Name == "serveone") || (sp.dir == "s2c" && (b.Name == "client" || b.Name == "serveone"))
			if !okWait {
				return "unexpected blocked goroutine: " + wl.BlockedSummary(bl)
			}
		}
	}
	return ""
}

// serveScenario: Server.Serve over a listener that has nconn connections ready at once; every
// client streams its own tagged messages and half-closes; the handler echoes. Each client must get
// back exactly its own messages, in order, then end-of-stream.
type echoAll struct{}

func (echoAll) HandleRPC(stream drpc.Stream, rpc string) error {
	for {
		var in []byte
		if err := stream.MsgRecv(&in, enc.Bytes{}); err != nil {
			if err == io.EOF {
				return nil
			}
			return err
		}
		if err := stream.MsgSend(&in, enc.Bytes{}); err != nil {
			return err
		}
	}
}

func serveScenario(nconn int) *mc.Scenario {
	name := fmt.Sprintf("deliver-through-Serve[%d connections ready at once, each client streams 2 tagged messages and half-closes]", nconn)
	type res struct {
		got  [][]byte
		err  error
		done bool
	}
	body := func() {
		lis := &fakenet.Listener{}
		srv := drpcserver.New(echoAll{})
		ctx, cancel := context.WithCancel(context.Background())
		rs := make([]*res, nconn)
		sched.Cur().State()["serve-results"] = rs
		var conns []*drpcconn.Conn
		for i := 0; i < nconn; i++ {
			c, s := tr.New(fmt.Sprintf("cli%d", i), fmt.Sprintf("srv%d", i), tr.Options{Cap: -1})
			lis.Push(fakenet.Conn{End: s})
			conns = append(conns, drpcconn.New(c))
			rs[i] = &res{}
		}
		vs.Go("serve", func() { _ = srv.Serve(ctx, lis) })
		for i := 0; i < nconn; i++ {
			i := i
			vs.Go(fmt.Sprintf("client%d", i), func() {
				r := rs[i]
				defer func() { r.done = true }()
				st, err := conns[i].NewStream(context.Background(), "/echo", enc.Bytes{})
				if err != nil {
					r.err = err
					return
				}
				for k := 0; k < 2; k++ {
					out := enc.Payload(byte('A'+i), 0, byte(k), enc.MinPayload+k)
					if err := st.MsgSend(&out, enc.Bytes{}); err != nil {
						r.err = err
						return
					}
				}
				if err := st.CloseSend(); err != nil {
					r.err = err
					return
				}
				for {
					var in []byte
					if err := st.MsgRecv(&in, enc.Bytes{}); err != nil {
						r.err = err
						return
					}
					r.got = append(r.got, in)
				}
			})
		}
		sched.Quiesce()
		sched.Freeze()
		wl.Cancel(cancel)
		for _, c := range conns {
			_ = c.Close()
		}
		sched.Quiesce()
	}
	check := func(e *sched.Exec) string {
		if len(e.Panics) > 0 {
			return "panic: " + e.Panics[0]
		}
		rs, _ := e.State()["serve-results"].([]*res)
		for i, r := range rs {
			if !r.done || r.err != io.EOF || len(r.got) != 2 {
				return fmt.Sprintf("client %d of a server with %d connections: sent 2 messages and half-closed, got %d back, ended with %v (returned=%v)", i, len(rs), len(r.got), r.err, r.done)
			}
			for k, m := range r.got {
				t, _, q, verr := enc.Verify(m)
				if verr != nil || t != byte('A'+i) || int(q) != k {
					return fmt.Sprintf("client %d received a message that is not its own message %d (tag %c seq %d, verify: %v)", i, k, t, q, verr)
				}
			}
		}
		return ""
	}
	return &mc.Scenario{Name: name, Body: body, Check: check, Model: sched.Deviation, NoCache: true}
}

// afterAbandonedScenario: the first stream's multi-frame reply is abandoned by the client (Close)
// while the server may be between two of its frames; the second stream on the same connection must
// deliver everything that is sent on it, in order, then end-of-stream.
func afterAbandonedScenario(cfg wl.Config) *mc.Scenario {
	name := fmt.Sprintf("deliver-after-abandoned-stream[%s | stream 1: a multi-frame reply, closed by the client without receiving ; stream 2: two echoed messages and half-close]", cfg)
	type res struct {
		got  [][]byte
		err  error
		done bool
	}
	body := func() {
		r := &res{}
		handler := func(e *wl.Env, stream drpc.Stream, rpc string) error {
			if rpc == "/big" {
				out := enc.Payload('B', 1, 0, enc.MinPayload+6)
				_ = stream.MsgSend(&out, enc.Bytes{})
				return nil
			}
			return echoAll{}.HandleRPC(stream, rpc)
		}
		env := wl.NewEnv(cfg, handler)
		env.Facts["res"] = r
		vs.Go("client", func() {
			defer func() { r.done = true }()
			if s1, err := env.Conn.NewStream(context.Background(), "/big", enc.Bytes{}); err == nil {
				_ = s1.Close()
			}
			st, err := env.Conn.NewStream(context.Background(), "/echo", enc.Bytes{})
			if err != nil {
				r.err = err
				return
			}
			for k := 0; k < 2; k++ {
				out := enc.Payload('E', 0, byte(k), enc.MinPayload+k)
				if err := st.MsgSend(&out, enc.Bytes{}); err != nil {
					r.err = err
					return
				}
				var in []byte
				if err := st.MsgRecv(&in, enc.Bytes{}); err != nil {
					r.err = err
					return
				}
				r.got = append(r.got, in)
			}
			if err := st.CloseSend(); err != nil {
				r.err = err
				return
			}
			var in []byte
			r.err = st.MsgRecv(&in, enc.Bytes{})
		})
		sched.Quiesce()
		env.Facts["closed"] = env.ConnClosed()
		env.Teardown()
	}
	check := func(e *sched.Exec) string {
		if m := wl.Basic(e); m != "" {
			return m
		}
		env := wl.GetEnv(e)
		r := env.Facts["res"].(*res)
		if c, _ := env.Facts["closed"].(bool); c {
			return "" // (the connection was given up: nothing more is promised on it)
		}
		if !r.done || r.err != io.EOF || len(r.got) != 2 {
			return fmt.Sprintf("stream 2 after an abandoned stream: 2 messages sent and echoed, %d received, ended with %v (returned=%v) on a connection that is still open", len(r.got), r.err, r.done)
		}
		for k, m := range r.got {
			t, _, q, verr := enc.Verify(m)
			if verr != nil || t != 'E' || int(q) != k {
				return fmt.Sprintf("stream 2 received a message that is not its message %d (tag %c seq %d, verify: %v)", k, t, q, verr)
			}
		}
		return ""
	}
	return &mc.Scenario{Name: name, Body: body, Check: check, Model: sched.Deviation, NoCache: true}
}

func basePlans(tier string) []mc.Plan {
	var ps []mc.Plan
	add := func(cfg wl.Config, sp spec, bounds ...int) {
		ps = append(ps, mc.Plan{Scen: scenario(cfg, sp), Bounds: bounds, Split: len(bounds) > 0 && bounds[len(bounds)-1] >= 2})
	}
	base := wl.Config{Pipe: tr.Options{Cap: -1}}
	small := wl.Config{Pipe: tr.Options{Cap: -1}, SplitSize: 2, WriterBuf: 1}
	cfgsQuick := []wl.Config{
		base,
		small,
		{Pipe: tr.Options{Cap: 0, ReadMax: 1}, SplitSize: 3, WriterBuf: 8},
		{Pipe: tr.Options{Cap: -1}, SplitSize: 3, WriterBuf: 8, ManualFlush: true},
		{Pipe: tr.Options{Cap: -1}, Soft: true, SplitSize: 2},
	}
	var cfgsAll []wl.Config
	for _, split := range []int{2, 3, 0} {
		for _, wb := range []int{1, 8, 0} {
			for _, mf := range []bool{false, true} {
				for _, soft := range []bool{false, true} {
					for _, pipe := range []tr.Options{{Cap: -1}, {Cap: 0}, {Cap: -1, ReadMax: 1}} {
						cfgsAll = append(cfgsAll, wl.Config{Soft: soft, Pipe: pipe, SplitSize: split, WriterBuf: wb, ManualFlush: mf})
					}
				}
			}
		}
	}
	sizesFor := func(cfg wl.Config, thorough bool) []int {
		split := cfg.SplitSize
		if split == 0 {
			split = 4 // sizes are relative to the split size; the default split (64 KiB) is covered by its own big-message scenario
		}
		if !thorough {
			return []int{1, split + 1}
		}
		return []int{0, 1, split - 1, split, split + 1, 2*split + 1}
	}
	if tier == "quick" {
		for _, cfg := range cfgsQuick {
			sz := sizesFor(cfg, false)
			for _, dir := range []string{"c2s", "s2c"} {
				for _, hc := range []bool{true, false} {
					for _, a := range sz {
						add(cfg, spec{dir: dir, senders: [][]int{{a}}, receivers: 1, halfClose: hc}, 0, 1)
						for _, b := range sz {
							add(cfg, spec{dir: dir, senders: [][]int{{a, b}}, receivers: 1, halfClose: hc}, 0, 1)
						}
					}
				}
			}
		}
		// the batching idiom of SetManualFlush: two messages, one write, both delivered
		for _, cfg := range cfgsQuick[:3] {
			for _, dir := range []string{"c2s", "s2c"} {
				add(cfg, spec{dir: dir, senders: [][]int{{1, 3}}, receivers: 1, halfClose: true, toggle: true}, 0, 1)
				add(cfg, spec{dir: dir, senders: [][]int{{3, 1, 1}}, receivers: 1, halfClose: false, toggle: true}, 0, 1)
			}
		}
		// RawRecv: the returned bytes belong to the caller, back-to-back messages
		for _, cfg := range []wl.Config{base, small} {
			for _, dir := range []string{"c2s", "s2c"} {
				add(cfg, spec{dir: dir, senders: [][]int{{3, 3, 1}}, receivers: 1, halfClose: true, raw: true}, 0, 1)
			}
		}
		// the sender hangs up after a graceful half-close; the transport reports end-of-stream either
		// separately or together with the last bytes
		for _, withData := range []bool{false, true} {
			for _, cfg := range []wl.Config{{Pipe: tr.Options{Cap: -1, EOFWithData: withData}}, {Pipe: tr.Options{Cap: -1, EOFWithData: withData}, SplitSize: 2, WriterBuf: 1}} {
				add(cfg, spec{dir: "c2s", senders: [][]int{{3, 1, 3}}, receivers: 1, halfClose: true, disturb: "hangup"}, 0, 1)
			}
		}
		// a stream after one whose multi-frame reply was abandoned half-way
		for _, cfg := range []wl.Config{{Soft: true, Pipe: tr.Options{Cap: -1}, SplitSize: 2, WriterBuf: 1}, {Pipe: tr.Options{Cap: -1}, SplitSize: 3, WriterBuf: 1}} {
			sc := afterAbandonedScenario(cfg)
			ps = append(ps, mc.Plan{Scen: sc, Bounds: []int{0, 1}}, mc.Plan{Scen: sc.Reversed(), Bounds: []int{0, 1}})
		}
		// several connections ready at once on a Server.Serve
		ps = append(ps, mc.Plan{Scen: serveScenario(2), Bounds: []int{0, 1}}, mc.Plan{Scen: serveScenario(3), Bounds: []int{0}})
		// cold start: the first message races the managers' own start-up
		for _, cfg := range []wl.Config{{Pipe: tr.Options{Cap: -1}, Cold: true}, {Pipe: tr.Options{Cap: -1}, SplitSize: 2, WriterBuf: 1, Cold: true}} {
			for _, dir := range []string{"c2s", "s2c"} {
				add(cfg, spec{dir: dir, senders: [][]int{{1, 3}}, receivers: 1, halfClose: true}, 0, 1)
			}
		}
		// one big message through the default split size and writer buffer
		add(base, spec{dir: "c2s", senders: [][]int{{70000, 5000}}, receivers: 1, halfClose: true}, 0, 1)
		add(base, spec{dir: "s2c", senders: [][]int{{70000}}, receivers: 1, halfClose: true}, 0, 1)
		for _, cfg := range []wl.Config{small, {Pipe: tr.Options{Cap: 0}, SplitSize: 3, WriterBuf: 8}} {
			for _, dir := range []string{"c2s", "s2c"} {
				add(cfg, spec{dir: dir, senders: [][]int{{1}, {3}}, receivers: 1, halfClose: true}, 0, 1, 2)
				add(cfg, spec{dir: dir, senders: [][]int{{1, 3}}, receivers: 2, halfClose: true}, 0, 1, 2)
				add(cfg, spec{dir: dir, senders: [][]int{{3, 1}}, receivers: 1, halfClose: true, disturb: "close"}, 0, 1, 2)
				add(cfg, spec{dir: dir, senders: [][]int{{3, 1}}, receivers: 1, halfClose: true, disturb: "cancel"}, 0, 1, 2)
			}
		}
		return ps
	}
	for _, cfg := range cfgsAll {
		sz := sizesFor(cfg, true)
		for _, dir := range []string{"c2s", "s2c"} {
			for _, hc := range []bool{true, false} {
				for _, a := range sz {
					add(cfg, spec{dir: dir, senders: [][]int{{a}}, receivers: 1, halfClose: hc}, 0, 1)
					for _, b := range sz {
						add(cfg, spec{dir: dir, senders: [][]int{{a, b}}, receivers: 1, halfClose: hc}, 0, 1)
					}
				}
				add(cfg, spec{dir: dir, senders: [][]int{{1, sz[4], 0}}, receivers: 1, halfClose: hc}, 0, 1)
			}
		}
	}
	add(base, spec{dir: "c2s", senders: [][]int{{70000, 5000}}, receivers: 1, halfClose: true}, 0, 1)
	add(base, spec{dir: "s2c", senders: [][]int{{70000, 131073}}, receivers: 1, halfClose: true}, 0, 1)
	for _, cfg := range cfgsQuick {
		for _, dir := range []string{"c2s", "s2c"} {
			for _, hc := range []bool{true, false} {
				add(cfg, spec{dir: dir, senders: [][]int{{1, 3}}, receivers: 1, halfClose: hc, toggle: true}, 0, 1, 2)
				add(cfg, spec{dir: dir, senders: [][]int{{3, 1, 1}}, receivers: 1, halfClose: hc, toggle: true}, 0, 1)
			}
		}
	}
	for _, cfg := range cfgsQuick {
		for _, dir := range []string{"c2s", "s2c"} {
			add(cfg, spec{dir: dir, senders: [][]int{{1}, {3}}, receivers: 1, halfClose: true}, 0, 1, 2)
			add(cfg, spec{dir: dir, senders: [][]int{{1, 3}, {2}}, receivers: 1, halfClose: true}, 0, 1, 2)
			add(cfg, spec{dir: dir, senders: [][]int{{1, 3}}, receivers: 2, halfClose: true}, 0, 1, 2)
			add(cfg, spec{dir: dir, senders: [][]int{{3, 1}}, receivers: 1, halfClose: true, disturb: "close"}, 0, 1, 2)
			add(cfg, spec{dir: dir, senders: [][]int{{3, 1}}, receivers: 1, halfClose: true, disturb: "cancel"}, 0, 1, 2)
			add(cfg, spec{dir: dir, senders: [][]int{{3, 1}}, receivers: 1, halfClose: false}, 0, 1, 2)
		}
	}
	add(small, spec{dir: "c2s", senders: [][]int{{1}, {3}}, receivers: 1, halfClose: true}, 3)
	return ps
}

// plans adds, to every scenario, a twin explored relative to the reversed default schedule (a
// second reference schedule for the deviation bound).
func plans(tier string) []mc.Plan {
	ps := basePlans(tier)
	if tier == "thorough" {
		return mc.WithReversed(ps, 1)
	}
	return mc.WithReversed(ps, -1)
}

func init() {
	mc.Register(&mc.Check{ID: "C01", Plans: plans, Budget: map[string]int{"quick": 240, "thorough": 1800},
		Notes: "C01: message delivery over a real conn/server pair; oracle = per-sender order, exactly once, byte equality, no gap over a successful send, flush-at-return (write log parsed by the reference decoder), completeness at quiescence, end-of-stream after half-close."})
}
