// Package c16: the listener multiplexer routes every connection once, by prefix,
// transparently; the header-writing connection sends its header exactly once, first.
package c16

import (
	"bytes"
	"context"
	"fmt"
	"io"
	"net"
	"sort"
	"strings"

	"storj.io/drpc/drpcmigrate"

	"verif/engine/sched"
	"verif/engine/vs"
	"verif/harness/fakenet"
	"verif/harness/tr"
	"verif/harness/wl"
	"verif/mc"
)

type connSpec struct {
	data   string // bytes the client sends before closing
	chunks []int  // sizes of the client's writes
}

func (c connSpec) String() string { return fmt.Sprintf("%q/%v", c.data, c.chunks) }

type accepted struct {
	by   string
	conn int
	got  []byte
}

type muxState struct {
	accepts      []accepted
	fails        []string
	runReturned  bool
	runErr       error
	acceptErrors map[string]int
}

func (st *muxState) failf(f string, a ...any) { st.fails = append(st.fails, fmt.Sprintf(f, a...)) }

func compositions(n int) [][]int {
	if n == 0 {
		return [][]int{{}}
	}
	var out [][]int
	for mask := 0; mask < 1<<(n-1); mask++ {
		var c []int
		run := 1
		for i := 1; i < n; i++ {
			if mask&(1<<(i-1)) != 0 {
				c = append(c, run)
				run = 1
			} else {
				run++
			}
		}
		out = append(out, append(c, run))
	}
	return out
}

func muxScenario(conns []connSpec, stop string, lateRoute bool) *mc.Scenario {
	var names []string
	for _, c := range conns {
		names = append(names, c.String())
	}
	name := fmt.Sprintf("mux[conns=%s stop=%s late-route=%v]", strings.Join(names, " "), stop, lateRoute)
	body := func() {
		st := &muxState{acceptErrors: map[string]int{}}
		sched.Cur().State()["st"] = st
		base := &fakenet.Listener{}
		mux := drpcmigrate.NewListenMux(base, 2)
		ctx, cancel := context.WithCancel(context.Background())
		var route net.Listener
		if !lateRoute {
			route = mux.Route("AA")
		}
		vs.Go("run", func() { st.runErr = mux.Run(ctx); st.runReturned = true })
		ends := map[net.Conn]int{}
		var srvEnds []*tr.End
		acceptLoop := func(who string, lis net.Listener) {
			for {
				c, err := lis.Accept()
				if err != nil {
					st.acceptErrors[who]++
					return
				}
				// identify the connection by reading everything it yields
				var got []byte
				buf := make([]byte, 8)
				for {
					n, err := c.Read(buf)
					got = append(got, buf[:n]...)
					if err != nil {
						break
					}
				}
				st.accepts = append(st.accepts, accepted{by: who, conn: -1, got: got})
			}
		}
		if lateRoute {
			route = mux.Route("AA")
		}
		vs.Go("acc-route", func() { acceptLoop("route", route) })
		vs.Go("acc-default", func() { acceptLoop("default", mux.Default()) })
		for i, cs := range conns {
			c, s := tr.New(fmt.Sprintf("c%d", i), fmt.Sprintf("s%d", i), tr.Options{Cap: -1})
			srvEnds = append(srvEnds, s)
			nc := fakenet.Conn{End: s}
			ends[nc] = i
			base.Push(nc)
			cs := cs
			vs.Go(fmt.Sprintf("client%d", i), func() {
				data := []byte(cs.data)
				for _, n := range cs.chunks {
					_, _ = c.Write(data[:n])
					data = data[n:]
				}
				_ = c.Close()
			})
		}
		if stop == "late-ctx" {
			// nothing stops the multiplexer while the connections are being routed
			sched.Quiesce()
			env := st
			for _, a := range env.accepts {
				if a.by == "default" && len(a.got) >= 2 && string(a.got[:2]) == "AA" && !lateRoute {
					st.failf("a connection with the registered prefix was delivered to the default listener (%q) while the route was registered and the multiplexer running", a.got)
				}
			}
			if len(st.accepts)+closedCount(srvEnds) != len(conns) {
				st.failf("with the multiplexer running, %d of %d connections were neither accepted nor closed; blocked=%s", len(conns)-len(st.accepts)-closedCount(srvEnds), len(conns), wl.BlockedSummary(sched.BlockedNow()))
			}
		}
		vs.Go("stopper", func() {
			switch stop {
			case "late-ctx":
				wl.Cancel(cancel)
			case "ctx":
				wl.Cancel(cancel)
			case "accept-error":
				base.Fail()
			case "route-close":
				_ = route.Close()
			}
		})
		sched.Quiesce()
		if stop == "route-close" {
			// the mux keeps running after one routed listener was closed; now stop it
			wl.Cancel(cancel)
			sched.Quiesce()
		}
		if !st.runReturned {
			st.failf("Run did not return after it was stopped; blocked=%s", wl.BlockedSummary(sched.BlockedNow()))
		} else {
			// when the multiplexer has stopped every Accept fails rather than blocking
			for _, who := range []string{"route", "default"} {
				if st.acceptErrors[who] == 0 {
					st.failf("Accept on the %s listener is still blocked after the multiplexer stopped; blocked=%s", who, wl.BlockedSummary(sched.BlockedNow()))
				}
			}
			late := mux.Route("ZZ")
			lateDone := false
			vs.Go("late-accept", func() { _, err := late.Accept(); lateDone = err != nil })
			sched.Quiesce()
			if !lateDone {
				st.failf("Accept on a listener routed after the multiplexer stopped blocks")
			}
		}
		// every connection the base listener handed over was delivered to exactly one listener or closed
		for i, cs := range conns {
			s := srvEnds[i]
			var hits []accepted
			for _, a := range st.accepts {
				full := []byte(cs.data)
				if (a.by == "route" && strings.HasPrefix(cs.data, "AA") && bytes.Equal(a.got, full[2:])) || (a.by == "default" && bytes.Equal(a.got, full)) {
					hits = append(hits, a)
				}
			}
			handedOver := s.Reads() > 0 || s.Closes > 0
			if !handedOver {
				continue // still in the backlog when the base listener was closed
			}
			_ = hits
		}
		// transparency and routing of what was accepted
		for _, a := range st.accepts {
			ok := false
			for _, cs := range conns {
				if a.by == "route" && len(cs.data) >= 2 && cs.data[:2] == "AA" && string(a.got) == cs.data[2:] {
					ok = true
				}
				if a.by == "default" && string(a.got) == cs.data {
					// (a connection with the routed prefix may reach the default listener once the route
					// has been unregistered by a stop; the late-ctx scenarios check the strict rule)
					ok = true
				}
			}
			if !ok {
				st.failf("the %s listener accepted a connection yielding %q, which is not what any client sent for it", a.by, a.got)
			}
		}
		delivered := 0
		for i, s := range srvEnds {
			n := 0
			for _, a := range st.accepts {
				_ = a
				n++
			}
			_ = i
			if s.Closes > 1 {
				st.failf("connection %d closed %d times by the multiplexer", i, s.Closes)
			}
			if s.Closes > 0 {
				delivered++
			}
		}
		// exactly-once: accepted connections + connections closed by the mux == connections taken from the base
		closedByMux := 0
		for _, s := range srvEnds {
			if s.Closes > 0 {
				closedByMux++
			}
		}
		if got := len(st.accepts) + closedByMux; got != base.Accepted {
			st.failf("%d connections taken from the base listener, but %d were accepted by a listener and %d closed (each must be delivered exactly once or closed); blocked=%s", base.Accepted, len(st.accepts), closedByMux, wl.BlockedSummary(sched.BlockedNow()))
		}
		if lib := wl.LibBlocked(sched.BlockedNow()); len(lib) > 0 {
			st.failf("multiplexer goroutines left behind: %s", wl.BlockedSummary(lib))
		}
		sched.Observef("accepted=%d closed=%d taken=%d", len(st.accepts), closedByMux, base.Accepted)
	}
	check := func(e *sched.Exec) string {
		if len(e.Panics) > 0 {
			return "panic: " + e.Panics[0]
		}
		st := e.State()["st"].(*muxState)
		if len(st.fails) > 0 {
			return st.fails[0]
		}
		return ""
	}
	return &mc.Scenario{Name: name, Body: body, Check: check, Model: sched.Deviation, NoCache: true}
}

// rerouteScenario: a routed listener is closed and its prefix registered again while the
// multiplexer keeps running; a connection with that prefix must reach the live routed listener.
func rerouteScenario() *mc.Scenario {
	body := func() {
		st := &muxState{acceptErrors: map[string]int{}}
		sched.Cur().State()["st"] = st
		base := &fakenet.Listener{}
		mux := drpcmigrate.NewListenMux(base, 2)
		ctx, cancel := context.WithCancel(context.Background())
		vs.Go("run", func() { st.runErr = mux.Run(ctx); st.runReturned = true })
		accept := func(who string, lis net.Listener) {
			c, err := lis.Accept()
			if err != nil {
				st.acceptErrors[who]++
				return
			}
			got, _ := io.ReadAll(c)
			st.accepts = append(st.accepts, accepted{by: who, got: got})
		}
		first := mux.Route("AA")
		vs.Go("closer", func() { _ = first.Close() })
		// register the prefix again, possibly before the old registration has been reaped
		live := ""
		for i := 0; i < 3 && live == ""; i++ {
			who := fmt.Sprintf("route%d", i)
			lis := mux.Route("AA")
			vs.Go("acc-"+who, func() { accept(who, lis) })
			sched.Quiesce()
			if st.acceptErrors[who] == 0 {
				live = who // its Accept is waiting: this registration is alive
			}
		}
		vs.Go("acc-default", func() { accept("default", mux.Default()) })
		c, s := tr.New("c0", "s0", tr.Options{Cap: -1})
		base.Push(fakenet.Conn{End: s})
		vs.Go("client", func() { _, _ = c.Write([]byte("AAxy")); _ = c.Close() })
		sched.Quiesce()
		if live != "" {
			for _, a := range st.accepts {
				if a.by == "default" {
					st.failf("a connection with the registered prefix was delivered to the default listener (%q) while the re-registered route %s is alive and waiting in Accept", a.got, live)
				}
				if a.by == live && string(a.got) != "xy" {
					st.failf("the routed listener yielded %q, want the bytes after the prefix", a.got)
				}
			}
			if len(st.accepts) == 0 && s.Closes == 0 {
				st.failf("the connection was neither delivered nor closed; blocked=%s", wl.BlockedSummary(sched.BlockedNow()))
			}
		}
		wl.Cancel(cancel)
		sched.Quiesce()
		if !st.runReturned {
			st.failf("Run did not return; blocked=%s", wl.BlockedSummary(sched.BlockedNow()))
		}
		if lib := wl.LibBlocked(sched.BlockedNow()); len(lib) > 0 {
			st.failf("multiplexer goroutines left behind: %s", wl.BlockedSummary(lib))
		}
		sched.Observef("live=%s accepts=%d", live, len(st.accepts))
	}
	check := func(e *sched.Exec) string {
		if len(e.Panics) > 0 {
			return "panic: " + e.Panics[0]
		}
		st := e.State()["st"].(*muxState)
		if len(st.fails) > 0 {
			return st.fails[0]
		}
		return ""
	}
	return &mc.Scenario{Name: "mux-reroute[close a routed listener, register its prefix again, connect]", Body: body, Check: check, Model: sched.Deviation, NoCache: true}
}

// reuseScenario: a long-running multiplexer serves connections one after the other and two at a
// time; the application closes every accepted connection twice (a deferred Close plus an explicit
// one, which net.Conn allows). Whatever the multiplexer keeps between connections must not make
// a later connection see another connection's bytes or take another connection's route.
func reuseScenario(first string, smallReads bool) *mc.Scenario {
	body := func() {
		st := &muxState{acceptErrors: map[string]int{}}
		sched.Cur().State()["st"] = st
		base := &fakenet.Listener{}
		mux := drpcmigrate.NewListenMux(base, 2)
		ctx, cancel := context.WithCancel(context.Background())
		route := mux.Route("AA")
		vs.Go("run", func() { st.runErr = mux.Run(ctx); st.runReturned = true })
		acceptLoop := func(who string, lis net.Listener) {
			for {
				c, err := lis.Accept()
				if err != nil {
					st.acceptErrors[who]++
					return
				}
				var got []byte
				if smallReads {
					// an application that reads with a buffer shorter than the multiplexer's prefix
					one := make([]byte, 1)
					for len(got) < 64 { // (no client sends that much: a longer stream is already wrong)
						n, err := c.Read(one)
						got = append(got, one[:n]...)
						if err != nil {
							break
						}
					}
				} else {
					got, _ = io.ReadAll(c)
				}
				st.accepts = append(st.accepts, accepted{by: who, got: got})
				_ = c.Close()
				_ = c.Close()
			}
		}
		vs.Go("acc-route", func() { acceptLoop("route", route) })
		vs.Go("acc-default", func() { acceptLoop("default", mux.Default()) })
		connect := func(i int, data string, readMax int) {
			c, s := tr.New(fmt.Sprintf("c%d", i), fmt.Sprintf("s%d", i), tr.Options{Cap: -1, ReadMax: readMax})
			base.Push(fakenet.Conn{End: s})
			vs.Go(fmt.Sprintf("client%d", i), func() { _, _ = c.Write([]byte(data)); _ = c.Close() })
		}
		want := map[string]string{} // what each listener must yield, by client data
		expect := func(data string) {
			if strings.HasPrefix(data, "AA") {
				want["route/"+data[2:]] = data
			} else {
				want["default/"+data] = data
			}
		}
		// one connection at a time, then two whose prefix reads can overlap (1-byte reads)
		connect(0, first, 0)
		expect(first)
		sched.Quiesce()
		connect(1, "AAy", 1)
		connect(2, "BBz", 1)
		expect("AAy")
		expect("BBz")
		sched.Quiesce()
		for _, a := range st.accepts {
			k := a.by + "/" + string(a.got)
			if _, ok := want[k]; !ok {
				st.failf("the %s listener accepted a connection yielding %q, which is not what any client sent for it (clients sent %q, \"AAy\", \"BBz\"; prefix \"AA\" is routed)", a.by, a.got, first)
			}
			delete(want, k)
		}
		var missing []string
		for k := range want {
			missing = append(missing, k)
		}
		sort.Strings(missing)
		for _, k := range missing {
			st.failf("the connection of the client that sent %q was never delivered as %s; blocked=%s", want[k], k, wl.BlockedSummary(sched.BlockedNow()))
		}
		wl.Cancel(cancel)
		sched.Quiesce()
		if !st.runReturned {
			st.failf("Run did not return; blocked=%s", wl.BlockedSummary(sched.BlockedNow()))
		}
		if lib := wl.LibBlocked(sched.BlockedNow()); len(lib) > 0 {
			st.failf("multiplexer goroutines left behind: %s", wl.BlockedSummary(lib))
		}
		sched.Observef("accepts=%d", len(st.accepts))
	}
	check := func(e *sched.Exec) string {
		if len(e.Panics) > 0 {
			return "panic: " + e.Panics[0]
		}
		st := e.State()["st"].(*muxState)
		if len(st.fails) > 0 {
			return st.fails[0]
		}
		return ""
	}
	nm := fmt.Sprintf("mux-reuse[%q alone, closed twice ; then \"AAy\" and \"BBz\" together, 1-byte reads]", first)
	if smallReads {
		nm = fmt.Sprintf("mux-reuse[%q alone, closed twice ; then \"AAy\" and \"BBz\" together, 1-byte reads ; the application reads byte by byte]", first)
	}
	return &mc.Scenario{Name: nm, Body: body, Check: check, Model: sched.Deviation, NoCache: true}
}

// parkedScenario: nobody accepts on one of the listeners (a busy or absent consumer), so a connection
// routed to it waits in the multiplexer; connections for the other listener must still be delivered,
// Route must still answer, and stopping the multiplexer must still work (closing what was parked).
func parkedScenario(idle string) *mc.Scenario {
	body := func() {
		st := &muxState{acceptErrors: map[string]int{}}
		sched.Cur().State()["st"] = st
		base := &fakenet.Listener{}
		mux := drpcmigrate.NewListenMux(base, 2)
		ctx, cancel := context.WithCancel(context.Background())
		route := mux.Route("AA")
		vs.Go("run", func() { st.runErr = mux.Run(ctx); st.runReturned = true })
		served, servedName := net.Listener(route), "route"
		parkedData, servedData := "BBp", "AAs"
		if idle == "route" {
			served, servedName = mux.Default(), "default"
			parkedData, servedData = "AAp", "BBs"
		}
		vs.Go("acc-"+servedName, func() {
			for {
				c, err := served.Accept()
				if err != nil {
					st.acceptErrors[servedName]++
					return
				}
				got, _ := io.ReadAll(c)
				st.accepts = append(st.accepts, accepted{by: servedName, got: got})
				_ = c.Close()
			}
		})
		var srv []*tr.End
		connect := func(i int, data string) {
			c, s := tr.New(fmt.Sprintf("c%d", i), fmt.Sprintf("s%d", i), tr.Options{Cap: -1})
			srv = append(srv, s)
			base.Push(fakenet.Conn{End: s})
			vs.Go(fmt.Sprintf("client%d", i), func() { _, _ = c.Write([]byte(data)); _ = c.Close() })
		}
		connect(0, parkedData) // nobody will accept this one
		sched.Quiesce()
		connect(1, servedData)
		routed := false
		vs.Go("router", func() { _ = mux.Route("AA"); routed = true }) // (the existing prefix: a second route would make Run iterate a two-entry map)
		sched.Quiesce()
		want := servedData
		if servedName == "route" {
			want = servedData[2:]
		}
		if len(st.accepts) != 1 || string(st.accepts[0].got) != want {
			st.failf("a connection for the %s listener (which has an Accept pending) was not delivered while another connection waits for the idle %s listener: accepted=%d; blocked=%s", servedName, idle, len(st.accepts), wl.BlockedSummary(sched.BlockedNow()))
		}
		if !routed {
			st.failf("Route blocks while a connection waits for an idle listener; blocked=%s", wl.BlockedSummary(sched.BlockedNow()))
		}
		wl.Cancel(cancel)
		sched.Quiesce()
		if !st.runReturned {
			st.failf("Run did not return after its context was cancelled while a connection waits for an idle listener; blocked=%s", wl.BlockedSummary(sched.BlockedNow()))
		} else if srv[0].Closes != 1 {
			st.failf("the connection that was waiting for the idle listener was closed %d times when the multiplexer stopped (want once: it was never delivered)", srv[0].Closes)
		}
		if lib := wl.LibBlocked(sched.BlockedNow()); len(lib) > 0 {
			st.failf("multiplexer goroutines left behind: %s", wl.BlockedSummary(lib))
		}
		sched.Observef("accepts=%d routed=%v", len(st.accepts), routed)
	}
	check := func(e *sched.Exec) string {
		if len(e.Panics) > 0 {
			return "panic: " + e.Panics[0]
		}
		st := e.State()["st"].(*muxState)
		if len(st.fails) > 0 {
			return st.fails[0]
		}
		return ""
	}
	return &mc.Scenario{Name: fmt.Sprintf("mux-parked[nobody accepts on the %s listener ; a connection for it, then one for the other listener, Route, stop]", idle), Body: body, Check: check, Model: sched.Deviation, NoCache: true}
}

func closedCount(ends []*tr.End) int {
	n := 0
	for _, s := range ends {
		if s.Closes > 0 {
			n++
		}
	}
	return n
}

// ---- HeaderConn ----

func headerScenario(writers [][]string) *mc.Scenario {
	name := fmt.Sprintf("header[writers=%v]", writers)
	body := func() {
		st := &muxState{}
		sched.Cur().State()["st"] = st
		c, s := tr.New("hc", "peer", tr.Options{Cap: -1})
		hc := drpcmigrate.NewHeaderConn(fakenet.Conn{End: c}, "HDR!")
		var wg vs.WaitGroup
		for w, writes := range writers {
			w, writes := w, writes
			wg.Add(1)
			vs.Go(fmt.Sprintf("writer%d", w), func() {
				for _, p := range writes {
					n, err := hc.Write([]byte(p))
					if err != nil || n != len(p) {
						st.failf("Write(%q) = (%d, %v), want (%d, nil)", p, n, err, len(p))
					}
				}
				wg.Done()
			})
		}
		wg.Wait()
		_ = hc.Close()
		got, _ := io.ReadAll(s)
		nwrites := 0
		for _, ws := range writers {
			nwrites += len(ws)
		}
		if nwrites == 0 {
			if len(got) != 0 {
				st.failf("peer received %q although nothing was ever written", got)
			}
		} else if !bytes.HasPrefix(got, []byte("HDR!")) {
			st.failf("peer received %q: the header is not first", got)
		} else if bytes.Contains(got[4:], []byte("HDR!")) {
			st.failf("peer received %q: the header was written more than once", got)
		} else if !interleaving(got[4:], writers) {
			st.failf("peer received %q after the header: not an interleaving of the writers' payloads", got[4:])
		}
		total := 0
		for _, ws := range writers {
			for _, p := range ws {
				total += len(p)
			}
		}
		if total == 0 && len(got) != 0 && len(writers[0]) == 0 {
			st.failf("header written although nothing was ever written")
		}
		sched.Observef("%q", got)
	}
	check := func(e *sched.Exec) string {
		if len(e.Panics) > 0 {
			return "panic: " + e.Panics[0]
		}
		st := e.State()["st"].(*muxState)
		if len(st.fails) > 0 {
			return st.fails[0]
		}
		return ""
	}
	return &mc.Scenario{Name: name, Body: body, Check: check, Model: sched.Preemption, Fine: false}
}

// interleaving reports whether got is an order-preserving merge of the writers' payload sequences.
func interleaving(got []byte, writers [][]string) bool {
	idx := make([]int, len(writers))
	var rec func(rest []byte) bool
	rec = func(rest []byte) bool {
		done := true
		for w := range writers {
			if idx[w] < len(writers[w]) {
				done = false
				p := writers[w][idx[w]]
				if bytes.HasPrefix(rest, []byte(p)) {
					idx[w]++
					if rec(rest[len(p):]) {
						return true
					}
					idx[w]--
				}
			}
		}
		return done && len(rest) == 0
	}
	return rec(got)
}

func basePlans(tier string) []mc.Plan {
	var ps []mc.Plan
	datas := []string{"AAxyz", "BBxyz", "A", "AA", ""}
	stops := []string{"late-ctx", "ctx", "accept-error", "route-close"}
	for _, d := range datas {
		for _, ch := range compositions(len(d)) {
			for _, stop := range stops {
				bounds := []int{0, 1}
				bounds = []int{0, 1, 2}
				if tier == "thorough" && len(ch) <= 2 {
					bounds = []int{0, 1, 2, 3}
				}
				ps = append(ps, mc.Plan{Scen: muxScenario([]connSpec{{d, ch}}, stop, false), Bounds: bounds, Split: len(bounds) > 2})
			}
		}
	}
	for _, stop := range stops {
		two := []connSpec{{"AAx", []int{1, 2}}, {"BBy", []int{3}}}
		three := []connSpec{{"AAx", []int{3}}, {"BBy", []int{2, 1}}, {"A", []int{1}}}
		b := []int{0, 1, 2}
		ps = append(ps, mc.Plan{Scen: muxScenario(two, stop, false), Bounds: b, Split: len(b) > 2})
		b3 := []int{0, 1}
		if tier == "thorough" {
			b3 = []int{0, 1, 2}
		}
		ps = append(ps, mc.Plan{Scen: muxScenario(three, stop, false), Bounds: b3, Split: len(b3) > 2})
		ps = append(ps, mc.Plan{Scen: muxScenario([]connSpec{{"AAx", []int{1, 2}}}, stop, true), Bounds: b, Split: len(b) > 2})
	}
	ps = append(ps, mc.Plan{Scen: rerouteScenario(), Bounds: []int{0, 1, 2}, Split: true})
	for _, idle := range []string{"default", "route"} {
		ps = append(ps, mc.Plan{Scen: parkedScenario(idle), Bounds: []int{0, 1, 2}, Split: true})
	}
	for _, first := range []string{"BBx", "AAx"} {
		ps = append(ps, mc.Plan{Scen: reuseScenario(first, false), Bounds: []int{0, 1, 2}, Split: true})
		ps = append(ps, mc.Plan{Scen: reuseScenario(first, true), Bounds: []int{0, 1}})
	}
	pats := [][]string{{}, {"a"}, {"", "b"}, {"ab", "c"}, {"a", "", "bc"}}
	for _, p := range pats {
		ps = append(ps, mc.Plan{Scen: headerScenario([][]string{p}), Bounds: []int{-1}})
		for _, q := range pats[1:] {
			ps = append(ps, mc.Plan{Scen: headerScenario([][]string{p, upper(q)}), Bounds: []int{-1}})
		}
	}
	return ps
}

func upper(p []string) []string {
	var out []string
	for _, s := range p {
		out = append(out, strings.ToUpper(s))
	}
	return out
}

// plans adds, to every scenario, a twin explored relative to the reversed default schedule (a
// second reference schedule for the deviation bound).
func plans(tier string) []mc.Plan {
	ps := basePlans(tier)
	if tier == "thorough" {
		return mc.WithReversed(ps, 2)
	}
	return mc.WithReversed(ps, 1)
}

func init() {
	mc.Register(&mc.Check{ID: "C16", Plans: plans, Budget: map[string]int{"quick": 120, "thorough": 1200},
		Notes: "C16: real ListenMux (prefix length 2) over a model base listener with 1-3 incoming connections whose client bytes arrive in every composition into writes; acceptors on the routed and the default listener; stop by context cancel, base Accept error or closing the routed listener, placed at every point by the deviation bound; HeaderConn with 1-2 writers and every write pattern over all interleavings."})
}
