// Package c05: a transport failure at any read or write is contained.
package c05

import (
	"bytes"
	"context"
	"fmt"
	"strings"

	"storj.io/drpc"

	"verif/engine/sched"
	"verif/engine/vs"
	"verif/harness/enc"
	"verif/harness/refwire"
	"verif/harness/tr"
	"verif/harness/wl"
	"verif/mc"
)

// log of what each side submitted and obtained, per rpc and direction
type xlog struct {
	sent  map[string][][]byte // key "<rpc>/c2s" or "<rpc>/s2c"
	recvd map[string][][]byte
	last  drpc.Stream
}

func newLog() *xlog { return &xlog{sent: map[string][][]byte{}, recvd: map[string][][]byte{}} }

func getLog(env *wl.Env) *xlog { return env.Facts["log"].(*xlog) }

func send(env *wl.Env, stream drpc.Stream, rpc, dir string, tag byte, seq int) error {
	d := byte(0)
	if dir == "s2c" {
		d = 1
	}
	p := enc.Payload(tag, d, byte(seq), enc.MinPayload+seq)
	l := getLog(env)
	l.sent[rpc+"/"+dir] = append(l.sent[rpc+"/"+dir], p)
	out := append([]byte(nil), p...)
	err := stream.MsgSend(&out, enc.Bytes{})
	if err == nil && !env.Cfg.ManualFlush {
		// a send that reports success (automatic flushing) has had every byte of its message
		// accepted by the transport: a failed write must surface in the call it happened in
		end := env.Cli
		if dir == "s2c" {
			end = env.Srv
		}
		if !acceptedOnWire(end.Written(), p) {
			env.Failf("MsgSend of %s message %d returned nil although the transport did not accept the whole message (a write of it failed)", rpc, seq)
		}
	}
	return err
}

// acceptedOnWire reports whether a complete message packet with this payload is among the bytes
// the transport actually accepted.
func acceptedOnWire(wire []byte, want []byte) bool {
	frames, _, _ := refwire.ParseAll(wire)
	ra := refwire.NewReassembler(1 << 30)
	for _, f := range frames {
		p, done, e := ra.Feed(f)
		if e != refwire.ErrNone {
			return false
		}
		if done && p.Kind == 2 && bytes.Equal(p.Data, want) {
			return true
		}
	}
	return false
}

func recv(env *wl.Env, stream drpc.Stream, rpc, dir string) error {
	var in []byte
	if err := stream.MsgRecv(&in, enc.Bytes{}); err != nil {
		return err
	}
	l := getLog(env)
	l.recvd[rpc+"/"+dir] = append(l.recvd[rpc+"/"+dir], in)
	return nil
}

func tagFor(rpc string) byte { return rpc[len(rpc)-1] }

func handler(env *wl.Env, stream drpc.Stream, rpc string) error {
	tag := tagFor(rpc)
	switch {
	case strings.HasPrefix(rpc, "/u"): // unary echo
		if err := recv(env, stream, rpc, "c2s"); err != nil {
			return err
		}
		return send(env, stream, rpc, "s2c", tag, 0)
	case strings.HasPrefix(rpc, "/cs"): // client streaming: count and reply
		n := 0
		for {
			if err := recv(env, stream, rpc, "c2s"); err != nil {
				break
			}
			n++
		}
		return send(env, stream, rpc, "s2c", tag, n)
	case strings.HasPrefix(rpc, "/ss"): // server streaming
		if err := recv(env, stream, rpc, "c2s"); err != nil {
			return err
		}
		for i := 0; i < 2; i++ {
			if err := send(env, stream, rpc, "s2c", tag, i); err != nil {
				return err
			}
		}
		return nil
	case strings.HasPrefix(rpc, "/bd"): // bidi echo loop
		for i := 0; ; i++ {
			if err := recv(env, stream, rpc, "c2s"); err != nil {
				return nil
			}
			if err := send(env, stream, rpc, "s2c", tag, i); err != nil {
				return err
			}
		}
	case strings.HasPrefix(rpc, "/xd"): // the application's decoder rejects the request
		var in []byte
		if err := stream.MsgRecv(&in, enc.FailUnmarshal{}); err != nil {
			return err
		}
		return nil
	}
	return fmt.Errorf("unknown rpc %s", rpc)
}

func unary(env *wl.Env, rpc string) error {
	l := getLog(env)
	p := enc.Payload(tagFor(rpc), 0, 0, enc.MinPayload)
	l.sent[rpc+"/c2s"] = append(l.sent[rpc+"/c2s"], p)
	in, out := append([]byte(nil), p...), []byte(nil)
	if err := env.Conn.Invoke(context.Background(), rpc, enc.Bytes{}, &in, &out); err != nil {
		return err
	}
	l.recvd[rpc+"/s2c"] = append(l.recvd[rpc+"/s2c"], out)
	return nil
}

var workloads map[string]func(env *wl.Env)

func init() { workloads = workloadTable; Workloads = workloads }

var workloadTable = map[string]func(env *wl.Env){
	"unary": func(env *wl.Env) { _ = unary(env, "/uA") },
	"unary2": func(env *wl.Env) {
		if unary(env, "/uA") == nil {
			_ = unary(env, "/uB")
		}
	},
	"cstream": func(env *wl.Env) {
		s, err := env.Conn.NewStream(context.Background(), "/csC", enc.Bytes{})
		if err != nil {
			return
		}
		getLog(env).last = s
		for i := 0; i < 2; i++ {
			if send(env, s, "/csC", "c2s", 'C', i) != nil {
				return
			}
		}
		if s.CloseSend() != nil {
			return
		}
		if recv(env, s, "/csC", "s2c") != nil {
			return
		}
		_ = s.Close()
	},
	"sstream": func(env *wl.Env) {
		s, err := env.Conn.NewStream(context.Background(), "/ssD", enc.Bytes{})
		if err != nil {
			return
		}
		getLog(env).last = s
		if send(env, s, "/ssD", "c2s", 'D', 0) != nil {
			return
		}
		for recv(env, s, "/ssD", "s2c") == nil {
		}
		_ = s.Close()
	},
	// the application is not receiving: the server's first message stays parked (unread) in the
	// stream while the client keeps sending; whatever fails, the client then closes the stream
	"unread": func(env *wl.Env) {
		s, err := env.Conn.NewStream(context.Background(), "/ssD", enc.Bytes{})
		if err != nil {
			return
		}
		getLog(env).last = s
		for i := 0; i < 3; i++ {
			if send(env, s, "/ssD", "c2s", 'D', i) != nil {
				break
			}
			if i == 0 {
				env.Cli.WaitDelivered(8) // the reply has arrived and is sitting unread in the stream
			}
		}
		_ = s.Close()
	},
	// RPC 1 ends by itself and its context is cancelled at the same moment; RPC 2 is a server stream
	// whose receives are pending when the transport fails
	"cleancancel-then-sstream": func(env *wl.Env) {
		ctx, cancel := context.WithCancel(context.Background())
		if s, err := env.Conn.NewStream(ctx, "/csC", enc.Bytes{}); err == nil {
			_ = s.Close()
			wl.Cancel(cancel)
		}
		workloads["sstream"](env)
	},
	// a request the handler's decoder rejects (the handler fails), then a reply the client's decoder
	// rejects (used by C12: whatever a failed decode leaves behind must not survive a close)
	"baddecode": func(env *wl.Env) {
		l := getLog(env)
		p := enc.Payload('X', 0, 0, enc.MinPayload)
		in, out := append([]byte(nil), p...), []byte(nil)
		_ = env.Conn.Invoke(context.Background(), "/xdA", enc.Bytes{}, &in, &out)
		q := enc.Payload(tagFor("/uB"), 0, 0, enc.MinPayload)
		l.sent["/uB/c2s"] = append(l.sent["/uB/c2s"], q)
		in2 := append([]byte(nil), q...)
		_ = env.Conn.Invoke(context.Background(), "/uB", enc.FailUnmarshal{}, &in2, &out)
	},
	// three goroutines call Invoke at once: one RPC in flight, two queued behind it
	"concurrent3": func(env *wl.Env) {
		var wg vs.WaitGroup
		for _, rpc := range []string{"/uA", "/uB", "/uC"} {
			rpc := rpc
			wg.Add(1)
			vs.Go("caller"+rpc[2:], func() { _ = unary(env, rpc); wg.Done() })
		}
		wg.Wait()
	},
	// full duplex: one goroutine sends, another receives (it may be inside its decoder when the
	// transport fails under the sender)
	"duplex": func(env *wl.Env) {
		s, err := env.Conn.NewStream(context.Background(), "/bdF", enc.Bytes{})
		if err != nil {
			return
		}
		getLog(env).last = s
		var wg vs.WaitGroup
		wg.Add(1)
		vs.Go("receiver", func() {
			for recv(env, s, "/bdF", "s2c") == nil {
			}
			wg.Done()
		})
		for i := 0; i < 2; i++ {
			if send(env, s, "/bdF", "c2s", 'F', i) != nil {
				break
			}
		}
		_ = s.CloseSend()
		wg.Wait()
		_ = s.Close()
	},
	"bidi": func(env *wl.Env) {
		s, err := env.Conn.NewStream(context.Background(), "/bdE", enc.Bytes{})
		if err != nil {
			return
		}
		getLog(env).last = s
		for i := 0; i < 2; i++ {
			if send(env, s, "/bdE", "c2s", 'E', i) != nil {
				return
			}
			if recv(env, s, "/bdE", "s2c") != nil {
				return
			}
		}
		_ = s.CloseSend()
		_ = recv(env, s, "/bdE", "s2c")
		_ = s.Close()
	},
}

type fspec struct {
	end   string // "cli" | "srv"
	fault tr.Fault
}

func (f fspec) String() string {
	op := "read"
	if f.fault.Write {
		op = "write"
	}
	s := fmt.Sprintf("%s.%s#%d:%s", f.end, op, f.fault.K, f.fault.Kind)
	if f.fault.Kind == tr.ErrAfter {
		s += fmt.Sprintf("(%d)", f.fault.J)
	}
	return s
}

func body(cfg wl.Config, wname string, f *fspec) func() {
	return func() {
		env := wl.NewEnv(cfg, handler)
		env.Facts["log"] = newLog()
		if f != nil {
			if f.end == "cli" {
				env.Cli.Arm(f.fault)
			} else {
				env.Srv.Arm(f.fault)
			}
		}
		done := false
		vs.Go("client", func() { workloads[wname](env); done = true })
		sched.Quiesce()
		fc := env.Facts
		fc["done"] = done
		fc["active"] = env.Active
		fc["blocked"] = wl.BlockedSummary(sched.BlockedNow())
		fc["faulted"] = env.Cli.Faulted || env.Srv.Faulted
		transient := f != nil && f.fault.Kind == tr.ErrOnce
		fc["transient"] = transient
		fc["calls"] = [4]int{len(env.Cli.Log), 0, len(env.Srv.Log), 0}
		if done && (env.Cli.Faulted || env.Srv.Faulted) && !transient {
			// every later call on the faulted connection fails instead of hanging
			lateDone := false
			var errs [4]error
			vs.Go("late", func() {
				in, out := enc.Payload('Z', 0, 0, enc.MinPayload), []byte(nil)
				errs[0] = env.Conn.Invoke(context.Background(), "/uZ", enc.Bytes{}, &in, &out)
				_, errs[1] = env.Conn.NewStream(context.Background(), "/uY", enc.Bytes{})
				if l := getLog(env); l.last != nil {
					o := enc.Payload('X', 0, 0, enc.MinPayload)
					errs[2] = l.last.MsgSend(&o, enc.Bytes{})
					var i []byte
					errs[3] = l.last.MsgRecv(&i, enc.Bytes{})
				} else {
					errs[2], errs[3] = context.Canceled, context.Canceled
				}
				lateDone = true
			})
			sched.Quiesce()
			fc["lateDone"] = lateDone
			fc["lateErrs"] = errs
			fc["blocked2"] = wl.BlockedSummary(sched.BlockedNow())
			fc["closed"] = env.ConnClosed()
			fc["serveDone"] = env.ServeDone
		}
		fc["reads"] = [2]int{}
		sched.Observef("done=%v faulted=%v closed=%v", done, fc["faulted"], fc["closed"])
		snap := map[string]any{}
		for k, v := range fc {
			snap[k] = v
		}
		fc["snap"] = snap
		env.Teardown()
	}
}

func check(e *sched.Exec) string {
	if m := wl.Basic(e); m != "" {
		return m
	}
	env := wl.GetEnv(e)
	f, _ := env.Facts["snap"].(map[string]any)
	if f == nil {
		return "HARNESS no snapshot"
	}
	// (a write that fails once on a transport that keeps working is not a failed transport: calls may
	// legitimately wait for data that was lost, and the connection stays open; what remains of the
	// property is that the failure surfaces in the call it happened in and corrupts nothing)
	transient, _ := f["transient"].(bool)
	if d, _ := f["done"].(bool); !d && !transient {
		if faulted, _ := f["faulted"].(bool); !faulted {
			return fmt.Sprintf("a call never returned although no fault had been injected (the workload completes on the default schedule); blocked=%v", f["blocked"])
		}
		return fmt.Sprintf("a pending call never returned after the transport failure; blocked=%v", f["blocked"])
	}
	if n, _ := f["active"].(int); n != 0 && !transient {
		return fmt.Sprintf("a handler is still blocked after the transport failure; blocked=%v", f["blocked"])
	}
	// delivered data is a correct prefix, per rpc and direction
	l := getLog(env)
	for key, got := range l.recvd {
		sent := l.sent[key]
		if len(got) > len(sent) {
			return fmt.Sprintf("%s: %d messages received but only %d sent (duplicated or cross-delivered)", key, len(got), len(sent))
		}
		for i := range got {
			if !bytes.Equal(got[i], sent[i]) {
				t, _, _, verr := enc.Verify(got[i])
				return fmt.Sprintf("%s: message %d differs from what was sent (tag %c, verify: %v): corrupted, reordered or wrong stream", key, i, t, verr)
			}
		}
	}
	if faulted, _ := f["faulted"].(bool); faulted && !transient {
		if ld, _ := f["lateDone"].(bool); !ld {
			return fmt.Sprintf("a call issued after the failure hangs; blocked=%v", f["blocked2"])
		}
		errs := f["lateErrs"].([4]error)
		names := []string{"Invoke", "NewStream", "MsgSend", "MsgRecv"}
		for i, err := range errs {
			if err == nil {
				return fmt.Sprintf("%s issued after the transport failure succeeded", names[i])
			}
		}
		if c, _ := f["closed"].(bool); !c {
			return "the connection does not report closed after the transport failure"
		}
	}
	return ""
}

// calls counts the transport calls of a fault-free default-schedule run.
func calls(cfg wl.Config, wname string) (cw, cr, sw, sr int, payloads map[string][]int, completes bool) {
	payloads = map[string][]int{}
	e := sched.Run(sched.Opts{NoKeys: true}, nil, nil, func() {
		env := wl.NewEnv(cfg, handler)
		env.Facts["log"] = newLog()
		vs.Go("client", func() { workloads[wname](env); env.Facts["completes"] = true })
		sched.Quiesce()
		env.Facts["n"] = [4]int{env.Cli.Writes(), env.Cli.Reads(), env.Srv.Writes(), env.Srv.Reads()}
		env.Facts["completed-before-teardown"], _ = env.Facts["completes"].(bool) // (the teardown releases a hung workload)
		for _, b := range env.Cli.Log {
			payloads["cli"] = append(payloads["cli"], len(b))
		}
		for _, b := range env.Srv.Log {
			payloads["srv"] = append(payloads["srv"], len(b))
		}
		env.Teardown()
	})
	n := wl.GetEnv(e).Facts["n"].([4]int)
	completes, _ = wl.GetEnv(e).Facts["completed-before-teardown"].(bool)
	return n[0], n[1], n[2], n[3], payloads, completes
}

func basePlans(tier string) []mc.Plan {
	var ps []mc.Plan
	wnames := []string{"unary", "cstream", "sstream", "bidi", "duplex", "unread", "concurrent3", "cleancancel-then-sstream"}
	if tier == "thorough" {
		wnames = append(wnames, "unary2")
	}
	// (the third one: every frame is its own transport write, issued while the frame is being buffered)
	cfgs := []wl.Config{{Pipe: tr.Options{Cap: -1}}, {Pipe: tr.Options{Cap: -1, ReadMax: 1}}, {Pipe: tr.Options{Cap: -1}, SplitSize: 4, WriterBuf: 1}}
	if tier == "thorough" {
		cfgs = append(cfgs, wl.Config{Pipe: tr.Options{Cap: 0}}, wl.Config{Soft: true, Pipe: tr.Options{Cap: -1}, SplitSize: 3, WriterBuf: 1})
	}
	for _, cfg := range cfgs {
		for _, w := range wnames {
			cw, cr, sw, sr, pl, completes := calls(cfg, w)
			if !completes {
				// the workload itself deadlocks over this transport without any fault (e.g. both
				// peers write without reading over a rendezvous pipe): there is no "pending call at
				// the moment of the failure" to speak of
				continue
			}
			// fault-free run explored too
			ps = append(ps, mc.Plan{Scen: &mc.Scenario{Name: fmt.Sprintf("fault[%s | %s | none]", cfg, w), Body: body(cfg, w, nil), Check: check, Model: sched.Deviation, NoCache: true}, Bounds: []int{0, 1}})
			type pos struct {
				end   string
				write bool
				n     int
			}
			for _, p := range []pos{{"cli", true, cw}, {"cli", false, cr}, {"srv", true, sw}, {"srv", false, sr}} {
				for k := 0; k <= p.n; k++ { // k == n: one past the last call of the default schedule (may never fire)
					var kinds []tr.Fault
					for _, kind := range []tr.FaultKind{tr.ErrReturn, tr.PeerClose, tr.LocalClose} {
						kinds = append(kinds, tr.Fault{Kind: kind, Write: p.write, K: k})
					}
					js := []int{1, 5}
					if p.write && k < len(pl[p.end]) {
						n := pl[p.end][k]
						js = []int{1, n / 2, n - 1}
						if tier == "thorough" {
							js = nil
							for j := 0; j < n; j++ {
								js = append(js, j)
							}
						}
					} else if tier == "thorough" {
						js = []int{0, 1, 2, 3, 5, 8, 13}
					}
					for _, j := range js {
						kinds = append(kinds, tr.Fault{Kind: tr.ErrAfter, Write: p.write, K: k, J: j})
					}
					if p.write && k < p.n {
						// the write fails once and the transport carries on
						kinds = append(kinds, tr.Fault{Kind: tr.ErrOnce, Write: true, K: k})
					}
					for _, fl := range kinds {
						fs := &fspec{end: p.end, fault: fl}
						bounds := []int{0}
						if cfg.Pipe.ReadMax == 0 && (cfg.WriterBuf == 0 || tier == "thorough") {
							bounds = []int{0, 1}
						}
						if tier == "thorough" && w == "unary" && cfg.Pipe.ReadMax == 0 && cfg.Pipe.Cap == -1 && !cfg.Soft && fl.Kind != tr.ErrAfter {
							bounds = []int{0, 1, 2}
						}
						ps = append(ps, mc.Plan{Scen: &mc.Scenario{Name: fmt.Sprintf("fault[%s | %s | %s]", cfg, w, fs), Body: body(cfg, w, fs), Check: check, Model: sched.Deviation, NoCache: true}, Bounds: bounds, Split: len(bounds) > 2})
					}
				}
			}
		}
	}
	return ps
}

// plans adds, to every scenario, a twin explored relative to the reversed default schedule (a
// second reference schedule for the deviation bound).
func plans(tier string) []mc.Plan {
	ps := basePlans(tier)
	if tier == "thorough" {
		return mc.WithReversed(ps, 1)
	}
	return mc.WithReversed(ps, 0)
}

func init() {
	mc.Register(&mc.Check{ID: "C05", Plans: plans, Budget: map[string]int{"quick": 240, "thorough": 1800},
		Notes: "C05: for every transport call index k of a fault-free default run (+1), endpoint, read/write and fault kind (error return, error after j bytes, peer close, local close; plus a write that fails once on a transport that carries on) the workload is re-run with that fault armed under every schedule within the bound; oracle: no panic, every pending call returns, later calls fail, connection reports closed, delivered data is a correct per-stream prefix."})
}

// Exported for the checks that reuse the workloads (C12).
var Workloads map[string]func(env *wl.Env)

// Handler is the tagged multi-shape handler of the workloads.
func Handler(env *wl.Env, stream drpc.Stream, rpc string) error { return handler(env, stream, rpc) }

// InitLog installs the exchange log the workloads need.
func InitLog(env *wl.Env) { env.Facts["log"] = newLog() }

// DataClause checks that everything delivered is a correct per-stream prefix.
func DataClause(env *wl.Env) string {
	l := getLog(env)
	for key, got := range l.recvd {
		sent := l.sent[key]
		if len(got) > len(sent) {
			return fmt.Sprintf("%s: %d messages received but only %d sent (duplicated or cross-delivered)", key, len(got), len(sent))
		}
		for i := range got {
			if !bytes.Equal(got[i], sent[i]) {
				return fmt.Sprintf("%s: message %d differs from what was sent: corrupted, reordered or wrong stream", key, i)
			}
		}
	}
	return ""
}
