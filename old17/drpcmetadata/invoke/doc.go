// Package invoke is the generated metadata message of storj.io/drpc v0.0.17 (verbatim copy).
package invoke
