// Package drpcwire is the wire layer of the released storj.io/drpc v0.0.17, copied
// verbatim from the module cache (error.go, packet.go, packet_string.go, split.go,
// transport.go, varint.go) for the wire-compatibility check C18. Only this file
// differs: the monkit instrumentation is replaced by a no-op.
package drpcwire

import "context"

type noopMon struct{}

func (noopMon) Task() func(*context.Context) func(*error) {
	return func(*context.Context) func(*error) { return func(*error) {} }
}

var mon noopMon
